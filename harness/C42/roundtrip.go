//verif:pkg encoding/ccf
//verif:dump encoding/ccf
//verif:dump .
//verif:dump common
//verif:dump sema
//verif:dump fixedpoint
//verif:assume CCF round trip of scalar values and small containers: for every value of the kind (full width; Int/UInt |x| < 2^128; strings/identifiers <= 3 bytes of valid UTF-8; arrays/dictionaries of <= 2 UInt8/UInt16 entries; optionals of a UInt8) the real ccf.Encode followed by the real ccf.Decode (incl. github.com/fxamacker/cbor's stream encoder/decoder run from source) yields a value of the same kind and content, never crashes, and a dictionary's encoding does not depend on the order of its entries; contracts, attachments, nested composites, composite type values, capabilities are outside
package PKGNAME

import (
	"bytes"
	"math/big"
	"unicode/utf8"

	"github.com/onflow/cadence"
	"github.com/onflow/cadence/common"
	fix "github.com/onflow/fixed-point"
)

var _ = big.NewInt
var _ = utf8.Valid
var _ = common.PathDomainStorage
var _ fix.Fix128

// zzEncode runs the real encoder.
func zzEncode(v cadence.Value) ([]byte, bool) {
	var b []byte
	var err error
	out := zzCatch(func() any {
		b, err = Encode(v)
		return nil
	})
	zzAssert("encode-no-crash", !out.Panicked)
	if out.Panicked {
		return nil, false
	}
	zzAssert("encode-ok", err == nil)
	return b, err == nil
}

// zzRoundTrip runs the real encoder, then the real decoder on its output.
func zzRoundTrip(v cadence.Value) (cadence.Value, bool) {
	b, ok := zzEncode(v)
	if !ok {
		return nil, false
	}
	var v2 cadence.Value
	var err error
	out := zzCatch(func() any {
		v2, err = Decode(nil, b)
		return nil
	})
	zzAssert("decode-no-crash", !out.Panicked)
	if out.Panicked {
		return nil, false
	}
	zzAssert("decode-ok", err == nil)
	return v2, err == nil
}

//verif:harness property=C42 mode=bv unwind=80 steps=40000000
func ZZ_C42_RoundTrip_Int8() {
	v := cadence.Int8(zzNondetInt8())
	r, ok := zzRoundTrip(v)
	if !ok {
		return
	}
	u, same := r.(cadence.Int8)
	zzAssert("same-kind", same)
	if same {
		zzAssert("same-value", u == v)
	}
}

//verif:harness property=C42 mode=bv unwind=80 steps=40000000
func ZZ_C42_RoundTrip_Int16() {
	v := cadence.Int16(zzNondetInt16())
	r, ok := zzRoundTrip(v)
	if !ok {
		return
	}
	u, same := r.(cadence.Int16)
	zzAssert("same-kind", same)
	if same {
		zzAssert("same-value", u == v)
	}
}

//verif:harness property=C42 mode=bv unwind=80 steps=40000000
func ZZ_C42_RoundTrip_Int32() {
	v := cadence.Int32(zzNondetInt32())
	r, ok := zzRoundTrip(v)
	if !ok {
		return
	}
	u, same := r.(cadence.Int32)
	zzAssert("same-kind", same)
	if same {
		zzAssert("same-value", u == v)
	}
}

//verif:harness property=C42 mode=bv unwind=80 steps=40000000
func ZZ_C42_RoundTrip_Int64() {
	v := cadence.Int64(zzNondetInt64())
	r, ok := zzRoundTrip(v)
	if !ok {
		return
	}
	u, same := r.(cadence.Int64)
	zzAssert("same-kind", same)
	if same {
		zzAssert("same-value", u == v)
	}
}

//verif:harness property=C42 mode=bv unwind=80 steps=40000000
func ZZ_C42_RoundTrip_UInt8() {
	v := cadence.UInt8(zzNondetUint8())
	r, ok := zzRoundTrip(v)
	if !ok {
		return
	}
	u, same := r.(cadence.UInt8)
	zzAssert("same-kind", same)
	if same {
		zzAssert("same-value", u == v)
	}
}

//verif:harness property=C42 mode=bv unwind=80 steps=40000000
func ZZ_C42_RoundTrip_UInt16() {
	v := cadence.UInt16(zzNondetUint16())
	r, ok := zzRoundTrip(v)
	if !ok {
		return
	}
	u, same := r.(cadence.UInt16)
	zzAssert("same-kind", same)
	if same {
		zzAssert("same-value", u == v)
	}
}

//verif:harness property=C42 mode=bv unwind=80 steps=40000000
func ZZ_C42_RoundTrip_UInt32() {
	v := cadence.UInt32(zzNondetUint32())
	r, ok := zzRoundTrip(v)
	if !ok {
		return
	}
	u, same := r.(cadence.UInt32)
	zzAssert("same-kind", same)
	if same {
		zzAssert("same-value", u == v)
	}
}

//verif:harness property=C42 mode=bv unwind=80 steps=40000000
func ZZ_C42_RoundTrip_UInt64() {
	v := cadence.UInt64(zzNondetUint64())
	r, ok := zzRoundTrip(v)
	if !ok {
		return
	}
	u, same := r.(cadence.UInt64)
	zzAssert("same-kind", same)
	if same {
		zzAssert("same-value", u == v)
	}
}

//verif:harness property=C42 mode=bv unwind=80 steps=40000000
func ZZ_C42_RoundTrip_Word8() {
	v := cadence.Word8(zzNondetUint8())
	r, ok := zzRoundTrip(v)
	if !ok {
		return
	}
	u, same := r.(cadence.Word8)
	zzAssert("same-kind", same)
	if same {
		zzAssert("same-value", u == v)
	}
}

//verif:harness property=C42 mode=bv unwind=80 steps=40000000
func ZZ_C42_RoundTrip_Word16() {
	v := cadence.Word16(zzNondetUint16())
	r, ok := zzRoundTrip(v)
	if !ok {
		return
	}
	u, same := r.(cadence.Word16)
	zzAssert("same-kind", same)
	if same {
		zzAssert("same-value", u == v)
	}
}

//verif:harness property=C42 mode=bv unwind=80 steps=40000000
func ZZ_C42_RoundTrip_Word32() {
	v := cadence.Word32(zzNondetUint32())
	r, ok := zzRoundTrip(v)
	if !ok {
		return
	}
	u, same := r.(cadence.Word32)
	zzAssert("same-kind", same)
	if same {
		zzAssert("same-value", u == v)
	}
}

//verif:harness property=C42 mode=bv unwind=80 steps=40000000
func ZZ_C42_RoundTrip_Word64() {
	v := cadence.Word64(zzNondetUint64())
	r, ok := zzRoundTrip(v)
	if !ok {
		return
	}
	u, same := r.(cadence.Word64)
	zzAssert("same-kind", same)
	if same {
		zzAssert("same-value", u == v)
	}
}

//verif:harness property=C42 mode=bv unwind=80 steps=40000000
func ZZ_C42_RoundTrip_Fix64() {
	v := cadence.Fix64(zzNondetInt64())
	r, ok := zzRoundTrip(v)
	if !ok {
		return
	}
	u, same := r.(cadence.Fix64)
	zzAssert("same-kind", same)
	if same {
		zzAssert("same-value", u == v)
	}
}

//verif:harness property=C42 mode=bv unwind=80 steps=40000000
func ZZ_C42_RoundTrip_UFix64() {
	v := cadence.UFix64(zzNondetUint64())
	r, ok := zzRoundTrip(v)
	if !ok {
		return
	}
	u, same := r.(cadence.UFix64)
	zzAssert("same-kind", same)
	if same {
		zzAssert("same-value", u == v)
	}
}

//verif:harness property=C42 mode=bv bigw=144 unwind=80 stubs=metering steps=40000000
func ZZ_C42_RoundTrip_Int() {
	x := zzNondetBigBits(136)
	zzAssume(x.Cmp(new(big.Int).Lsh(big.NewInt(1), 127)) < 0 && x.Cmp(new(big.Int).Neg(new(big.Int).Lsh(big.NewInt(1), 127))) >= 0)
	v := cadence.NewIntFromBig(x)
	r, ok := zzRoundTrip(v)
	if !ok {
		return
	}
	u, same := r.(cadence.Int)
	zzAssert("same-kind", same)
	if same {
		zzAssert("same-value", u.Value.Cmp(x) == 0)
	}
}

//verif:harness property=C42 mode=bv bigw=144 unwind=80 stubs=metering steps=40000000
func ZZ_C42_RoundTrip_UInt() {
	x := zzNondetBigBits(136)
	zzAssume(x.Sign() >= 0 && x.Cmp(new(big.Int).Lsh(big.NewInt(1), 128)) < 0)
	v, err := cadence.NewUIntFromBig(x)
	zzAssert("constructor-accepts-in-range", err == nil)
	if err != nil {
		return
	}
	r, ok := zzRoundTrip(v)
	if !ok {
		return
	}
	u, same := r.(cadence.UInt)
	zzAssert("same-kind", same)
	if same {
		zzAssert("same-value", u.Value.Cmp(x) == 0)
	}
}

//verif:harness property=C42 mode=bv bigw=144 unwind=80 stubs=metering steps=40000000
func ZZ_C42_RoundTrip_Int128() {
	x := zzNondetBigBits(136)
	zzAssume(x.Cmp(new(big.Int).Lsh(big.NewInt(1), 127)) < 0 && x.Cmp(new(big.Int).Neg(new(big.Int).Lsh(big.NewInt(1), 127))) >= 0)
	v, err := cadence.NewInt128FromBig(x)
	zzAssert("constructor-accepts-in-range", err == nil)
	if err != nil {
		return
	}
	r, ok := zzRoundTrip(v)
	if !ok {
		return
	}
	u, same := r.(cadence.Int128)
	zzAssert("same-kind", same)
	if same {
		zzAssert("same-value", u.Value.Cmp(x) == 0)
	}
}

//verif:harness property=C42 mode=bv bigw=144 unwind=80 stubs=metering steps=40000000
func ZZ_C42_RoundTrip_UInt128() {
	x := zzNondetBigBits(136)
	zzAssume(x.Sign() >= 0 && x.Cmp(new(big.Int).Lsh(big.NewInt(1), 128)) < 0)
	v, err := cadence.NewUInt128FromBig(x)
	zzAssert("constructor-accepts-in-range", err == nil)
	if err != nil {
		return
	}
	r, ok := zzRoundTrip(v)
	if !ok {
		return
	}
	u, same := r.(cadence.UInt128)
	zzAssert("same-kind", same)
	if same {
		zzAssert("same-value", u.Value.Cmp(x) == 0)
	}
}

//verif:harness property=C42 mode=bv bigw=144 unwind=80 stubs=metering steps=40000000
func ZZ_C42_RoundTrip_Word128() {
	x := zzNondetBigBits(136)
	zzAssume(x.Sign() >= 0 && x.Cmp(new(big.Int).Lsh(big.NewInt(1), 128)) < 0)
	v, err := cadence.NewWord128FromBig(x)
	zzAssert("constructor-accepts-in-range", err == nil)
	if err != nil {
		return
	}
	r, ok := zzRoundTrip(v)
	if !ok {
		return
	}
	u, same := r.(cadence.Word128)
	zzAssert("same-kind", same)
	if same {
		zzAssert("same-value", u.Value.Cmp(x) == 0)
	}
}

//verif:harness property=C42 mode=bv bigw=272 unwind=80 stubs=metering steps=40000000 tier=thorough
func ZZ_C42_RoundTrip_Int256() {
	x := zzNondetBigBits(264)
	zzAssume(x.Cmp(new(big.Int).Lsh(big.NewInt(1), 255)) < 0 && x.Cmp(new(big.Int).Neg(new(big.Int).Lsh(big.NewInt(1), 255))) >= 0)
	v, err := cadence.NewInt256FromBig(x)
	zzAssert("constructor-accepts-in-range", err == nil)
	if err != nil {
		return
	}
	r, ok := zzRoundTrip(v)
	if !ok {
		return
	}
	u, same := r.(cadence.Int256)
	zzAssert("same-kind", same)
	if same {
		zzAssert("same-value", u.Value.Cmp(x) == 0)
	}
}

//verif:harness property=C42 mode=bv bigw=272 unwind=80 stubs=metering steps=40000000 tier=thorough
func ZZ_C42_RoundTrip_UInt256() {
	x := zzNondetBigBits(264)
	zzAssume(x.Sign() >= 0 && x.Cmp(new(big.Int).Lsh(big.NewInt(1), 256)) < 0)
	v, err := cadence.NewUInt256FromBig(x)
	zzAssert("constructor-accepts-in-range", err == nil)
	if err != nil {
		return
	}
	r, ok := zzRoundTrip(v)
	if !ok {
		return
	}
	u, same := r.(cadence.UInt256)
	zzAssert("same-kind", same)
	if same {
		zzAssert("same-value", u.Value.Cmp(x) == 0)
	}
}

//verif:harness property=C42 mode=bv bigw=272 unwind=80 stubs=metering steps=40000000 tier=thorough
func ZZ_C42_RoundTrip_Word256() {
	x := zzNondetBigBits(264)
	zzAssume(x.Sign() >= 0 && x.Cmp(new(big.Int).Lsh(big.NewInt(1), 256)) < 0)
	v, err := cadence.NewWord256FromBig(x)
	zzAssert("constructor-accepts-in-range", err == nil)
	if err != nil {
		return
	}
	r, ok := zzRoundTrip(v)
	if !ok {
		return
	}
	u, same := r.(cadence.Word256)
	zzAssert("same-kind", same)
	if same {
		zzAssert("same-value", u.Value.Cmp(x) == 0)
	}
}

//verif:harness property=C42 mode=bv unwind=80 steps=40000000
func ZZ_C42_RoundTrip_Bool() {
	v := cadence.Bool(zzNondetBool())
	r, ok := zzRoundTrip(v)
	if !ok {
		return
	}
	u, same := r.(cadence.Bool)
	zzAssert("same-kind", same)
	if same {
		zzAssert("same-value", u == v)
	}
}

//verif:harness property=C42 mode=bv unwind=80 steps=40000000
func ZZ_C42_RoundTrip_Address() {
	var a [8]byte
	copy(a[:], zzNondetBytes(8))
	v := cadence.NewAddress(a)
	r, ok := zzRoundTrip(v)
	if !ok {
		return
	}
	u, same := r.(cadence.Address)
	zzAssert("same-kind", same)
	if same {
		zzAssert("same-value", u == v)
	}
}

//verif:harness property=C42 mode=bv unwind=80 steps=40000000
func ZZ_C42_RoundTrip_Fix128() {
	v := cadence.Fix128(fix.NewFix128(zzNondetUint64(), zzNondetUint64()))
	r, ok := zzRoundTrip(v)
	if !ok {
		return
	}
	u, same := r.(cadence.Fix128)
	zzAssert("same-kind", same)
	if same {
		zzAssert("same-value", u == v)
	}
}

//verif:harness property=C42 mode=bv unwind=80 steps=40000000
func ZZ_C42_RoundTrip_UFix128() {
	v := cadence.UFix128(fix.NewUFix128(zzNondetUint64(), zzNondetUint64()))
	r, ok := zzRoundTrip(v)
	if !ok {
		return
	}
	u, same := r.(cadence.UFix128)
	zzAssert("same-kind", same)
	if same {
		zzAssert("same-value", u == v)
	}
}

//verif:harness property=C42 mode=bv unwind=80 lens=0..3 thorough_lens=0..4 steps=40000000
func ZZ_C42_RoundTrip_String_LLEN() {
	b := zzNondetBytes(LEN)
	zzAssume(utf8.Valid(b))
	v := cadence.String(string(b))
	r, ok := zzRoundTrip(v)
	if !ok {
		return
	}
	u, same := r.(cadence.String)
	zzAssert("same-kind", same)
	if same {
		zzAssert("same-value", string(u) == string(b))
	}
}

//verif:harness property=C42 mode=bv unwind=80 lens=0..2 thorough_lens=0..3 steps=40000000
func ZZ_C42_RoundTrip_Path_LLEN() {
	b := zzNondetBytes(LEN)
	zzAssume(utf8.Valid(b))
	domains := [3]common.PathDomain{common.PathDomainStorage, common.PathDomainPrivate, common.PathDomainPublic}
	d := domains[zzChoice(3)]
	v := cadence.Path{Domain: d, Identifier: string(b)}
	r, ok := zzRoundTrip(v)
	if !ok {
		return
	}
	u, same := r.(cadence.Path)
	zzAssert("same-kind", same)
	if same {
		zzAssert("same-value", u.Domain == d && u.Identifier == string(b))
	}
}

//verif:harness property=C42 mode=bv unwind=80 steps=40000000
func ZZ_C42_RoundTrip_Optional() {
	var v cadence.Optional
	x := zzNondetUint8()
	some := zzNondetBool()
	if some {
		v = cadence.NewOptional(cadence.UInt8(x))
	} else {
		v = cadence.NewOptional(nil)
	}
	r, ok := zzRoundTrip(v)
	if !ok {
		return
	}
	u, same := r.(cadence.Optional)
	zzAssert("same-kind", same)
	if !same {
		return
	}
	if some {
		inner, isU8 := u.Value.(cadence.UInt8)
		zzAssert("same-value", isU8 && uint8(inner) == x)
	} else {
		zzAssert("same-value", u.Value == nil)
	}
}

//verif:harness property=C42 mode=bv unwind=80 lens=0..2 thorough_lens=0..3 steps=40000000
func ZZ_C42_RoundTrip_Array_LLEN() {
	var xs [LEN + 1]uint16
	vals := make([]cadence.Value, LEN)
	for i := 0; i < LEN; i++ {
		xs[i] = zzNondetUint16()
		vals[i] = cadence.UInt16(xs[i])
	}
	v := cadence.NewArray(vals).WithType(cadence.NewVariableSizedArrayType(cadence.UInt16Type))
	r, ok := zzRoundTrip(v)
	if !ok {
		return
	}
	u, same := r.(cadence.Array)
	zzAssert("same-kind", same)
	if !same {
		return
	}
	zzAssert("same-length", len(u.Values) == LEN)
	if len(u.Values) != LEN {
		return
	}
	for i := 0; i < LEN; i++ {
		e, isU16 := u.Values[i].(cadence.UInt16)
		zzAssert("same-element", isU16 && uint16(e) == xs[i])
	}
}

// Dictionary of two entries with distinct symbolic UInt16 keys: both insertion orders encode to the
// same bytes, and decoding yields exactly the two entries.
//
//verif:harness property=C42 mode=bv unwind=80 steps=40000000
func ZZ_C42_RoundTrip_Dictionary2() {
	k1, k2 := zzNondetUint16(), zzNondetUint16()
	v1, v2 := zzNondetUint8(), zzNondetUint8()
	zzAssume(k1 != k2)
	dt := cadence.NewDictionaryType(cadence.UInt16Type, cadence.UInt8Type)
	p1 := cadence.KeyValuePair{Key: cadence.UInt16(k1), Value: cadence.UInt8(v1)}
	p2 := cadence.KeyValuePair{Key: cadence.UInt16(k2), Value: cadence.UInt8(v2)}
	d12 := cadence.NewDictionary([]cadence.KeyValuePair{p1, p2}).WithType(dt)
	d21 := cadence.NewDictionary([]cadence.KeyValuePair{p2, p1}).WithType(dt)
	b12, ok := zzEncode(d12)
	if !ok {
		return
	}
	b21, ok := zzEncode(d21)
	if !ok {
		return
	}
	zzAssert("encoding-independent-of-entry-order", bytes.Equal(b12, b21))
	r, ok := zzRoundTrip(d21)
	if !ok {
		return
	}
	u, same := r.(cadence.Dictionary)
	zzAssert("same-kind", same)
	if !same {
		return
	}
	zzAssert("same-length", len(u.Pairs) == 2)
	if len(u.Pairs) != 2 {
		return
	}
	found1, found2 := false, false
	for _, p := range u.Pairs {
		k, isK := p.Key.(cadence.UInt16)
		e, isE := p.Value.(cadence.UInt8)
		zzAssert("entry-kinds", isK && isE)
		if !isK || !isE {
			return
		}
		if uint16(k) == k1 && uint8(e) == v1 {
			found1 = true
		}
		if uint16(k) == k2 && uint8(e) == v2 {
			found2 = true
		}
	}
	zzAssert("same-entries", found1 && found2)
}

// A struct with two fields (type definition message, tag 129): default mode and deterministic
// mode (fields sorted bytewise); the decoded struct has the same type ID and field values, and in
// deterministic mode the encoding does not depend on the declaration order of the fields.
//
//verif:harness property=C42 mode=bv unwind=80 steps=40000000
func ZZ_C42_RoundTrip_Struct() {
	x, y := zzNondetUint8(), zzNondetUint16()
	loc := common.StringLocation("x")
	fa, fb := cadence.NewField("a", cadence.UInt8Type), cadence.NewField("bb", cadence.UInt16Type)
	t1 := cadence.NewStructType(loc, "S", []cadence.Field{fa, fb}, nil)
	t2 := cadence.NewStructType(loc, "S", []cadence.Field{fb, fa}, nil)
	v1 := cadence.NewStruct([]cadence.Value{cadence.UInt8(x), cadence.UInt16(y)}).WithType(t1)
	v2 := cadence.NewStruct([]cadence.Value{cadence.UInt16(y), cadence.UInt8(x)}).WithType(t2)
	r, ok := zzRoundTrip(v1)
	if !ok {
		return
	}
	u, same := r.(cadence.Struct)
	zzAssert("same-kind", same)
	if !same {
		return
	}
	zzAssert("same-type-id", u.StructType != nil && u.StructType.ID() == t1.ID())
	a, isA := u.SearchFieldByName("a").(cadence.UInt8)
	b, isB := u.SearchFieldByName("bb").(cadence.UInt16)
	zzAssert("same-fields", isA && isB && uint8(a) == x && uint16(b) == y)
	// deterministic mode
	det, err := EncOptions{SortCompositeFields: SortBytewiseLexical, SortIntersectionTypes: SortBytewiseLexical, SortEntitlementTypes: SortBytewiseLexical}.EncMode()
	zzAssert("deterministic-mode-exists", err == nil)
	if err != nil {
		return
	}
	var b1, b2 []byte
	var e1, e2 error
	out := zzCatch(func() any {
		b1, e1 = det.Encode(v1)
		b2, e2 = det.Encode(v2)
		return nil
	})
	zzAssert("encode-no-crash", !out.Panicked)
	if out.Panicked {
		return
	}
	zzAssert("encode-ok", e1 == nil && e2 == nil)
	zzAssert("deterministic-encoding-independent-of-field-order", bytes.Equal(b1, b2))
	strict, err := DecOptions{EnforceSortCompositeFields: EnforceSortBytewiseLexical, EnforceSortIntersectionTypes: EnforceSortBytewiseLexical, EnforceSortEntitlementTypes: EnforceSortBytewiseLexical}.DecMode()
	zzAssert("strict-mode-exists", err == nil)
	if err != nil {
		return
	}
	var r2 cadence.Value
	out = zzCatch(func() any {
		r2, e1 = strict.Decode(nil, b2)
		return nil
	})
	zzAssert("decode-no-crash", !out.Panicked)
	if out.Panicked {
		return
	}
	zzAssert("strict-decoder-accepts-deterministic-encoding", e1 == nil)
	if e1 != nil {
		return
	}
	u2, same2 := r2.(cadence.Struct)
	zzAssert("same-kind", same2)
	if same2 {
		a2, isA2 := u2.SearchFieldByName("a").(cadence.UInt8)
		b2v, isB2 := u2.SearchFieldByName("bb").(cadence.UInt16)
		zzAssert("same-fields", isA2 && isB2 && uint8(a2) == x && uint16(b2v) == y)
	}
}

// Type values: every scalar simple type and derived types over it (encode_type.go /
// decode_type.go): the decoded type is equal to the original.
//
//verif:harness property=C42 mode=bv unwind=80 steps=40000000
func ZZ_C42_RoundTrip_TypeValue() {
	prims := [12]cadence.Type{cadence.IntType, cadence.UInt8Type, cadence.Word64Type, cadence.Fix64Type, cadence.UFix128Type, cadence.StringType, cadence.BoolType, cadence.AddressType, cadence.PathType, cadence.AnyStructType, cadence.VoidType, cadence.Int256Type}
	p := prims[zzChoice(12)]
	size := zzNondetUint32()
	var t cadence.Type
	switch zzChoice(8) {
	case 0:
		t = p
	case 1:
		t = cadence.NewOptionalType(p)
	case 2:
		t = cadence.NewVariableSizedArrayType(p)
	case 3:
		t = cadence.NewConstantSizedArrayType(uint(size), p)
	case 4:
		t = cadence.NewDictionaryType(cadence.StringType, p)
	case 5:
		t = cadence.NewReferenceType(cadence.UnauthorizedAccess, p)
	case 6:
		t = cadence.NewCapabilityType(p)
	default:
		t = cadence.NewOptionalType(cadence.NewVariableSizedArrayType(p))
	}
	r, ok := zzRoundTrip(cadence.NewTypeValue(t))
	if !ok {
		return
	}
	u, same := r.(cadence.TypeValue)
	zzAssert("same-kind", same)
	if same {
		zzAssert("equal-type", u.StaticType != nil && u.StaticType.Equal(t) && t.Equal(u.StaticType))
		zzAssert("same-type-id", u.StaticType != nil && u.StaticType.ID() == t.ID())
	}
}

// Composites other than structs: a resource, an event and an enum with symbolic field values.
//
//verif:harness property=C42 mode=bv unwind=80 steps=40000000
func ZZ_C42_RoundTrip_Composites() {
	x, y := zzNondetUint8(), zzNondetInt64()
	loc := common.StringLocation("x")
	fields := []cadence.Field{cadence.NewField("a", cadence.UInt8Type), cadence.NewField("bb", cadence.Int64Type)}
	vals := []cadence.Value{cadence.UInt8(x), cadence.Int64(y)}
	var v cadence.Value
	k := zzChoice(3)
	switch k {
	case 0:
		v = cadence.NewResource(vals).WithType(cadence.NewResourceType(loc, "R", fields, nil))
	case 1:
		v = cadence.NewEvent(vals).WithType(cadence.NewEventType(loc, "E", fields, nil))
	default:
		v = cadence.NewEnum([]cadence.Value{cadence.UInt8(x)}).WithType(cadence.NewEnumType(loc, "N", cadence.UInt8Type, []cadence.Field{cadence.NewField("rawValue", cadence.UInt8Type)}, nil))
	}
	r, ok := zzRoundTrip(v)
	if !ok {
		return
	}
	c, same := r.(cadence.Composite)
	zzAssert("same-kind", same)
	if !same {
		return
	}
	zzAssert("same-type-id", r.Type() != nil && r.Type().ID() == v.Type().ID())
	if k == 2 {
		raw, isU8 := cadence.SearchFieldByName(c, "rawValue").(cadence.UInt8)
		zzAssert("same-fields", isU8 && uint8(raw) == x)
		return
	}
	a, isA := cadence.SearchFieldByName(c, "a").(cadence.UInt8)
	b, isB := cadence.SearchFieldByName(c, "bb").(cadence.Int64)
	zzAssert("same-fields", isA && isB && uint8(a) == x && int64(b) == y)
}
