//verif:pkg encoding/ccf
//verif:assume kernel: the canonical-order comparators of CCF deterministic mode and the decoder's order predicates on arbitrary keys of 0..3 bytes: restricted to distinct keys each Less is a strict total order (so the sorted sequence does not depend on the input order) and agrees with what the decoder enforces; CBOR encoding/decoding, round trips and decoder robustness are outside
package PKGNAME

import (
	"github.com/onflow/cadence"
	"github.com/onflow/cadence/common"
)

func zzStr(maxLen int) string {
	n := zzChoice(maxLen + 1)
	return string(zzNondetBytes(n))
}

// zzOrderLaws checks, for three pairwise distinct keys at indexes 0,1,2, that less is a strict
// total order on them and agrees with the reference "shorter first, then bytewise".
func zzOrderLaws(less func(i, j int) bool, ref func(i, j int) bool) {
	for i := 0; i < 3; i++ {
		for j := 0; j < 3; j++ {
			if i == j {
				continue
			}
			zzAssert("agrees-with-length-then-bytewise-order", less(i, j) == ref(i, j))
			zzAssert("asymmetric-and-total-on-distinct-keys", less(i, j) != less(j, i))
		}
	}
	zzAssert("transitive", zzImplies(zzAnd(less(0, 1), less(1, 2)), less(0, 2)))
	zzAssert("transitive-2", zzImplies(zzAnd(less(2, 1), less(1, 0)), less(2, 0)))
}

func zzRefStr(a, b string) bool {
	return len(a) < len(b) || (len(a) == len(b) && a < b)
}

//verif:harness property=C42 mode=bv unwind=80 steps=20000000
func ZZ_C42_FieldSorter() {
	s := [3]string{zzStr(3), zzStr(3), zzStr(3)}
	zzAssume(s[0] != s[1] && s[1] != s[2] && s[0] != s[2])
	out := zzCatch(func() any {
		x := newBytewiseFieldSorter([]cadence.Field{{Identifier: s[0]}, {Identifier: s[1]}, {Identifier: s[2]}})
		zzOrderLaws(x.Less, func(i, j int) bool { return zzRefStr(s[i], s[j]) })
		for i := 0; i < 3; i++ {
			for j := 0; j < 3; j++ {
				if i != j {
					zzAssert("encoder-order-is-what-decoder-enforces", x.Less(i, j) == stringsAreSortedBytewise(s[i], s[j]))
				}
			}
		}
		return nil
	})
	zzAssert("no-crash", !out.Panicked)
}

//verif:harness property=C42 mode=bv unwind=80 steps=20000000
func ZZ_C42_TypeIDSorter() {
	s := [3]string{zzStr(3), zzStr(3), zzStr(3)}
	zzAssume(s[0] != s[1] && s[1] != s[2] && s[0] != s[2])
	out := zzCatch(func() any {
		x := newBytewiseCadenceTypeIDSorter([]common.TypeID{common.TypeID(s[0]), common.TypeID(s[1]), common.TypeID(s[2])})
		zzOrderLaws(x.Less, func(i, j int) bool { return zzRefStr(s[i], s[j]) })
		for i := 0; i < 3; i++ {
			for j := 0; j < 3; j++ {
				if i != j {
					zzAssert("encoder-order-is-what-decoder-enforces", x.Less(i, j) == stringsAreSortedBytewise(s[i], s[j]))
				}
			}
		}
		return nil
	})
	zzAssert("no-crash", !out.Panicked)
}

func zzRefBytes(a, b []byte) bool {
	n := len(a)
	if len(b) < n {
		n = len(b)
	}
	// first differing byte decides, else the shorter one is smaller (plain bytewise order)
	res := len(a) < len(b)
	for i := n - 1; i >= 0; i-- {
		if a[i] != b[i] {
			res = a[i] < b[i]
		}
	}
	return res
}

//verif:harness property=C42 mode=bv unwind=80 steps=20000000
func ZZ_C42_KeyValuePairSorter() {
	k := [3][]byte{zzNondetBytes(zzChoice(4)), zzNondetBytes(zzChoice(4)), zzNondetBytes(zzChoice(4))}
	same := func(a, b []byte) bool {
		if len(a) != len(b) {
			return false
		}
		r := true
		for i := range a {
			r = zzAnd(r, a[i] == b[i])
		}
		return r
	}
	zzAssume(!same(k[0], k[1]) && !same(k[1], k[2]) && !same(k[0], k[2]))
	out := zzCatch(func() any {
		x := bytewiseKeyValuePairSorter{{encodedKey: k[0]}, {encodedKey: k[1]}, {encodedKey: k[2]}}
		zzOrderLaws(x.Less, func(i, j int) bool { return zzRefBytes(k[i], k[j]) })
		for i := 0; i < 3; i++ {
			for j := 0; j < 3; j++ {
				if i != j {
					zzAssert("encoder-order-is-what-decoder-enforces", x.Less(i, j) == bytesAreSortedBytewise(k[i], k[j]))
				}
			}
		}
		return nil
	})
	zzAssert("no-crash", !out.Panicked)
}

// the decoder's predicates reject duplicates: equal strings are never "sorted"
//verif:harness property=C42 mode=bv unwind=80
func ZZ_C42_DecoderRejectsDuplicates() {
	s := zzStr(3)
	zzAssert("equal-strings-not-sorted", !stringsAreSortedBytewise(s, s))
}
