//verif:pkg encoding/ccf
//verif:dump encoding/ccf
//verif:dump .
//verif:dump common
//verif:dump sema
//verif:dump fixedpoint
//verif:assume CCF decoder robustness: the real ccf.Decode (incl. github.com/fxamacker/cbor's well-formedness check and stream decoder run from source) on every byte string of the stated length - unconstrained, after the head of a type-and-value message, after a simple-type header, and as the value of each scalar simple type - never panics (Decode re-panics Go run-time errors and internal errors, so none occurs); longer inputs, type definitions and composite values are outside
package PKGNAME

func zzDecodeNoCrash(in []byte) {
	out := zzCatch(func() any {
		_, err := Decode(nil, in)
		return err
	})
	// (For the abstract simple types - Path, AnyStruct, ... - a CBOR nil value makes Decode return
	// (nil, nil): neither a value nor an error.  C42 only states "never crashes", so this is not
	// asserted; see DESIGN.md section 3 C42.)
	zzAssert("no-crash", !out.Panicked)
}

func zzCat(prefix []byte, rest []byte) []byte {
	in := make([]byte, 0, len(prefix)+len(rest))
	in = append(in, prefix...)
	in = append(in, rest...)
	return in
}

// zzSimpleTypeHeader: tag 130 [ tag 137 <simple type id>, ...
func zzSimpleTypeHeader(id SimpleType) []byte {
	h := []byte{0xd8, 0x82, 0x82, 0xd8, 0x89}
	if id < 24 {
		return append(h, byte(id))
	}
	return append(h, 0x18, byte(id))
}

//verif:harness property=C42 mode=bv unwind=80 lens=0..3 thorough_lens=0..3 steps=40000000
func ZZ_C42_DecodeBytes_LLEN() {
	zzDecodeNoCrash(zzNondetBytes(LEN))
}

//verif:harness property=C42 mode=bv unwind=80 lens=1..2 thorough_lens=1..3 steps=40000000
func ZZ_C42_DecodeTypeAndValue_LLEN() {
	zzDecodeNoCrash(zzCat([]byte{0xd8, 0x82, 0x82}, zzNondetBytes(LEN)))
}

//verif:harness property=C42 mode=bv unwind=80 lens=1..2 thorough_lens=1..3 steps=40000000
func ZZ_C42_DecodeAfterSimpleTypeTag_LLEN() {
	zzDecodeNoCrash(zzCat([]byte{0xd8, 0x82, 0x82, 0xd8, 0x89}, zzNondetBytes(LEN)))
}

// The value of each scalar simple type as arbitrary bytes.
//
//verif:harness property=C42 mode=bv unwind=80 lens=1..1 thorough_lens=1..2 steps=40000000
func ZZ_C42_DecodeScalarValue_LLEN() {
	ids := [30]SimpleType{
		SimpleTypeBool, SimpleTypeString, SimpleTypeCharacter, SimpleTypeAddress,
		SimpleTypeInt, SimpleTypeInt8, SimpleTypeInt16, SimpleTypeInt32, SimpleTypeInt64, SimpleTypeInt128, SimpleTypeInt256,
		SimpleTypeUInt, SimpleTypeUInt8, SimpleTypeUInt16, SimpleTypeUInt32, SimpleTypeUInt64, SimpleTypeUInt128, SimpleTypeUInt256,
		SimpleTypeWord8, SimpleTypeWord16, SimpleTypeWord32, SimpleTypeWord64, SimpleTypeWord128, SimpleTypeWord256,
		SimpleTypeFix64, SimpleTypeUFix64, SimpleTypeFix128, SimpleTypeUFix128,
		SimpleTypePath, SimpleTypeVoid,
	}
	id := ids[zzChoice(30)]
	zzDecodeNoCrash(zzCat(zzSimpleTypeHeader(id), zzNondetBytes(LEN)))
}
