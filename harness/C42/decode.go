//verif:pkg encoding/ccf
//verif:dump encoding/ccf
//verif:dump .
//verif:dump common
//verif:dump sema
//verif:dump fixedpoint
//verif:assume CCF decoder robustness: the real ccf.Decode (incl. github.com/fxamacker/cbor's well-formedness check and stream decoder run from source) on every byte string of the stated length - unconstrained, after the head of a type-and-value message, after a simple-type header, and as the value of each scalar simple type - never panics (Decode re-panics Go run-time errors and internal errors, so none occurs); longer inputs, type definitions and composite values are outside
package PKGNAME


func zzDecodeNoCrash(in []byte) {
	out := zzCatch(func() any {
		_, err := Decode(nil, in)
		return err
	})
	// (For the abstract simple types - Path, AnyStruct, ... - a CBOR nil value makes Decode return
	// (nil, nil): neither a value nor an error.  C42 only states "never crashes", so this is not
	// asserted; see DESIGN.md section 3 C42.)
	zzAssert("no-crash", !out.Panicked)
}

func zzCat(prefix []byte, rest []byte) []byte {
	in := make([]byte, 0, len(prefix)+len(rest))
	in = append(in, prefix...)
	in = append(in, rest...)
	return in
}

// zzSimpleTypeHeader: tag 130 [ tag 137 <simple type id>, ...
func zzSimpleTypeHeader(id SimpleType) []byte {
	h := []byte{0xd8, 0x82, 0x82, 0xd8, 0x89}
	if id < 24 {
		return append(h, byte(id))
	}
	return append(h, 0x18, byte(id))
}

//verif:harness property=C42 mode=bv unwind=80 lens=0..3 thorough_lens=0..3 steps=40000000
func ZZ_C42_DecodeBytes_LLEN() {
	zzDecodeNoCrash(zzNondetBytes(LEN))
}

//verif:harness property=C42 mode=bv unwind=80 lens=1..2 thorough_lens=1..3 steps=40000000
func ZZ_C42_DecodeTypeAndValue_LLEN() {
	zzDecodeNoCrash(zzCat([]byte{0xd8, 0x82, 0x82}, zzNondetBytes(LEN)))
}

//verif:harness property=C42 mode=bv unwind=80 lens=1..2 thorough_lens=1..2 steps=40000000
func ZZ_C42_DecodeAfterSimpleTypeTag_LLEN() {
	zzDecodeNoCrash(zzCat([]byte{0xd8, 0x82, 0x82, 0xd8, 0x89}, zzNondetBytes(LEN)))
}

// The value of each scalar simple type as arbitrary bytes.
//
//verif:harness property=C42 mode=bv unwind=80 lens=1..1 thorough_lens=1..1 steps=40000000
func ZZ_C42_DecodeScalarValue_LLEN() {
	ids := [30]SimpleType{
		SimpleTypeBool, SimpleTypeString, SimpleTypeCharacter, SimpleTypeAddress,
		SimpleTypeInt, SimpleTypeInt8, SimpleTypeInt16, SimpleTypeInt32, SimpleTypeInt64, SimpleTypeInt128, SimpleTypeInt256,
		SimpleTypeUInt, SimpleTypeUInt8, SimpleTypeUInt16, SimpleTypeUInt32, SimpleTypeUInt64, SimpleTypeUInt128, SimpleTypeUInt256,
		SimpleTypeWord8, SimpleTypeWord16, SimpleTypeWord32, SimpleTypeWord64, SimpleTypeWord128, SimpleTypeWord256,
		SimpleTypeFix64, SimpleTypeUFix64, SimpleTypeFix128, SimpleTypeUFix128,
		SimpleTypePath, SimpleTypeVoid,
	}
	id := ids[zzChoice(30)]
	zzDecodeNoCrash(zzCat(zzSimpleTypeHeader(id), zzNondetBytes(LEN)))
}

// thorough tier: two free value bytes, one harness per scalar simple type (so they run in parallel)

//verif:harness property=C42 mode=bv bigw=288 unwind=80 tier=thorough steps=40000000
func ZZ_C42_DecodeScalarValue2_Bool() {
	zzDecodeNoCrash(zzCat(zzSimpleTypeHeader(SimpleTypeBool), zzNondetBytes(2)))
}

//verif:harness property=C42 mode=bv bigw=288 unwind=80 tier=thorough steps=40000000
func ZZ_C42_DecodeScalarValue2_String() {
	zzDecodeNoCrash(zzCat(zzSimpleTypeHeader(SimpleTypeString), zzNondetBytes(2)))
}

//verif:harness property=C42 mode=bv bigw=288 unwind=80 tier=thorough steps=40000000
func ZZ_C42_DecodeScalarValue2_Character() {
	zzDecodeNoCrash(zzCat(zzSimpleTypeHeader(SimpleTypeCharacter), zzNondetBytes(2)))
}

//verif:harness property=C42 mode=bv bigw=288 unwind=80 tier=thorough steps=40000000
func ZZ_C42_DecodeScalarValue2_Address() {
	zzDecodeNoCrash(zzCat(zzSimpleTypeHeader(SimpleTypeAddress), zzNondetBytes(2)))
}

//verif:harness property=C42 mode=bv bigw=288 unwind=80 tier=thorough steps=40000000
func ZZ_C42_DecodeScalarValue2_Int() {
	zzDecodeNoCrash(zzCat(zzSimpleTypeHeader(SimpleTypeInt), zzNondetBytes(2)))
}

//verif:harness property=C42 mode=bv bigw=288 unwind=80 tier=thorough steps=40000000
func ZZ_C42_DecodeScalarValue2_Int8() {
	zzDecodeNoCrash(zzCat(zzSimpleTypeHeader(SimpleTypeInt8), zzNondetBytes(2)))
}

//verif:harness property=C42 mode=bv bigw=288 unwind=80 tier=thorough steps=40000000
func ZZ_C42_DecodeScalarValue2_Int16() {
	zzDecodeNoCrash(zzCat(zzSimpleTypeHeader(SimpleTypeInt16), zzNondetBytes(2)))
}

//verif:harness property=C42 mode=bv bigw=288 unwind=80 tier=thorough steps=40000000
func ZZ_C42_DecodeScalarValue2_Int32() {
	zzDecodeNoCrash(zzCat(zzSimpleTypeHeader(SimpleTypeInt32), zzNondetBytes(2)))
}

//verif:harness property=C42 mode=bv bigw=288 unwind=80 tier=thorough steps=40000000
func ZZ_C42_DecodeScalarValue2_Int64() {
	zzDecodeNoCrash(zzCat(zzSimpleTypeHeader(SimpleTypeInt64), zzNondetBytes(2)))
}

//verif:harness property=C42 mode=bv bigw=288 unwind=80 tier=thorough steps=40000000
func ZZ_C42_DecodeScalarValue2_Int128() {
	zzDecodeNoCrash(zzCat(zzSimpleTypeHeader(SimpleTypeInt128), zzNondetBytes(2)))
}

//verif:harness property=C42 mode=bv bigw=288 unwind=80 tier=thorough steps=40000000
func ZZ_C42_DecodeScalarValue2_Int256() {
	zzDecodeNoCrash(zzCat(zzSimpleTypeHeader(SimpleTypeInt256), zzNondetBytes(2)))
}

//verif:harness property=C42 mode=bv bigw=288 unwind=80 tier=thorough steps=40000000
func ZZ_C42_DecodeScalarValue2_UInt() {
	zzDecodeNoCrash(zzCat(zzSimpleTypeHeader(SimpleTypeUInt), zzNondetBytes(2)))
}

//verif:harness property=C42 mode=bv bigw=288 unwind=80 tier=thorough steps=40000000
func ZZ_C42_DecodeScalarValue2_UInt8() {
	zzDecodeNoCrash(zzCat(zzSimpleTypeHeader(SimpleTypeUInt8), zzNondetBytes(2)))
}

//verif:harness property=C42 mode=bv bigw=288 unwind=80 tier=thorough steps=40000000
func ZZ_C42_DecodeScalarValue2_UInt16() {
	zzDecodeNoCrash(zzCat(zzSimpleTypeHeader(SimpleTypeUInt16), zzNondetBytes(2)))
}

//verif:harness property=C42 mode=bv bigw=288 unwind=80 tier=thorough steps=40000000
func ZZ_C42_DecodeScalarValue2_UInt32() {
	zzDecodeNoCrash(zzCat(zzSimpleTypeHeader(SimpleTypeUInt32), zzNondetBytes(2)))
}

//verif:harness property=C42 mode=bv bigw=288 unwind=80 tier=thorough steps=40000000
func ZZ_C42_DecodeScalarValue2_UInt64() {
	zzDecodeNoCrash(zzCat(zzSimpleTypeHeader(SimpleTypeUInt64), zzNondetBytes(2)))
}

//verif:harness property=C42 mode=bv bigw=288 unwind=80 tier=thorough steps=40000000
func ZZ_C42_DecodeScalarValue2_UInt128() {
	zzDecodeNoCrash(zzCat(zzSimpleTypeHeader(SimpleTypeUInt128), zzNondetBytes(2)))
}

//verif:harness property=C42 mode=bv bigw=288 unwind=80 tier=thorough steps=40000000
func ZZ_C42_DecodeScalarValue2_UInt256() {
	zzDecodeNoCrash(zzCat(zzSimpleTypeHeader(SimpleTypeUInt256), zzNondetBytes(2)))
}

//verif:harness property=C42 mode=bv bigw=288 unwind=80 tier=thorough steps=40000000
func ZZ_C42_DecodeScalarValue2_Word8() {
	zzDecodeNoCrash(zzCat(zzSimpleTypeHeader(SimpleTypeWord8), zzNondetBytes(2)))
}

//verif:harness property=C42 mode=bv bigw=288 unwind=80 tier=thorough steps=40000000
func ZZ_C42_DecodeScalarValue2_Word16() {
	zzDecodeNoCrash(zzCat(zzSimpleTypeHeader(SimpleTypeWord16), zzNondetBytes(2)))
}

//verif:harness property=C42 mode=bv bigw=288 unwind=80 tier=thorough steps=40000000
func ZZ_C42_DecodeScalarValue2_Word32() {
	zzDecodeNoCrash(zzCat(zzSimpleTypeHeader(SimpleTypeWord32), zzNondetBytes(2)))
}

//verif:harness property=C42 mode=bv bigw=288 unwind=80 tier=thorough steps=40000000
func ZZ_C42_DecodeScalarValue2_Word64() {
	zzDecodeNoCrash(zzCat(zzSimpleTypeHeader(SimpleTypeWord64), zzNondetBytes(2)))
}

//verif:harness property=C42 mode=bv bigw=288 unwind=80 tier=thorough steps=40000000
func ZZ_C42_DecodeScalarValue2_Word128() {
	zzDecodeNoCrash(zzCat(zzSimpleTypeHeader(SimpleTypeWord128), zzNondetBytes(2)))
}

//verif:harness property=C42 mode=bv bigw=288 unwind=80 tier=thorough steps=40000000
func ZZ_C42_DecodeScalarValue2_Word256() {
	zzDecodeNoCrash(zzCat(zzSimpleTypeHeader(SimpleTypeWord256), zzNondetBytes(2)))
}

//verif:harness property=C42 mode=bv bigw=288 unwind=80 tier=thorough steps=40000000
func ZZ_C42_DecodeScalarValue2_Fix64() {
	zzDecodeNoCrash(zzCat(zzSimpleTypeHeader(SimpleTypeFix64), zzNondetBytes(2)))
}

//verif:harness property=C42 mode=bv bigw=288 unwind=80 tier=thorough steps=40000000
func ZZ_C42_DecodeScalarValue2_UFix64() {
	zzDecodeNoCrash(zzCat(zzSimpleTypeHeader(SimpleTypeUFix64), zzNondetBytes(2)))
}

//verif:harness property=C42 mode=bv bigw=288 unwind=80 tier=thorough steps=40000000
func ZZ_C42_DecodeScalarValue2_Fix128() {
	zzDecodeNoCrash(zzCat(zzSimpleTypeHeader(SimpleTypeFix128), zzNondetBytes(2)))
}

//verif:harness property=C42 mode=bv bigw=288 unwind=80 tier=thorough steps=40000000
func ZZ_C42_DecodeScalarValue2_UFix128() {
	zzDecodeNoCrash(zzCat(zzSimpleTypeHeader(SimpleTypeUFix128), zzNondetBytes(2)))
}

//verif:harness property=C42 mode=bv bigw=288 unwind=80 tier=thorough steps=40000000
func ZZ_C42_DecodeScalarValue2_Path() {
	zzDecodeNoCrash(zzCat(zzSimpleTypeHeader(SimpleTypePath), zzNondetBytes(2)))
}

//verif:harness property=C42 mode=bv bigw=288 unwind=80 tier=thorough steps=40000000
func ZZ_C42_DecodeScalarValue2_Void() {
	zzDecodeNoCrash(zzCat(zzSimpleTypeHeader(SimpleTypeVoid), zzNondetBytes(2)))
}
