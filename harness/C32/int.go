//verif:pkg values
//verif:dump common
//verif:dump sema
//verif:assume a harness gauge sums the BigInt memory metered by the real operation (estimators and wiring are executed for real); result size = 8 * word length of the result computed by the harness
//verif:assume int-mode harnesses: operands |x| < 2^(64*8) with word lengths taken symbolically (no case split); bitwise/shift harnesses (bv-mode): operands <= 2 words, shift amounts < 256; larger operands/shifts are outside the bound
package PKGNAME

import (
	"math/big"

	"github.com/onflow/cadence/common"
)

type zzGauge struct{ total *uint64 }

func (g zzGauge) MeterMemory(u common.MemoryUsage) error {
	if u.Kind == common.MemoryKindBigInt {
		*g.total += u.Amount
	}
	return nil
}

func (g zzGauge) MeterComputation(u common.ComputationUsage) error { return nil }

// word length of |x| for |x| < 2^(64*maxWords)
func zzWordLen(x *big.Int, maxWords int) int {
	n := 0
	a := new(big.Int).Abs(x)
	for k := 0; k < maxWords; k++ {
		n += zzIteInt(a.Cmp(new(big.Int).Lsh(big.NewInt(1), uint(64*k))) >= 0, 1, 0)
	}
	return n
}

func zzMeteredCoversResult(total uint64, r *big.Int, maxWords int) bool {
	return total >= uint64(8*zzWordLen(r, maxWords))
}

//verif:harness property=C32 mode=int stubs=absbits
func ZZ_C32_Int_Plus() {
	A, B := zzNondetBigBits(64*8), zzNondetBigBits(64*8)
	var total uint64
	out := zzCatch(func() any {
		r, err := IntValue{BigInt: new(big.Int).Set(A)}.Plus(zzGauge{&total}, IntValue{BigInt: new(big.Int).Set(B)})
		if err != nil {
			panic(err)
		}
		return r
	})
	zzAssert("no-failure", !out.Panicked)
	if !out.Panicked {
		zzAssert("metered-at-least-result-size", zzMeteredCoversResult(total, out.Value.(IntValue).BigInt, 8+1))
	}
}

//verif:harness property=C32 mode=int stubs=absbits
func ZZ_C32_Int_Minus() {
	A, B := zzNondetBigBits(64*8), zzNondetBigBits(64*8)
	var total uint64
	out := zzCatch(func() any {
		r, err := IntValue{BigInt: new(big.Int).Set(A)}.Minus(zzGauge{&total}, IntValue{BigInt: new(big.Int).Set(B)})
		if err != nil {
			panic(err)
		}
		return r
	})
	zzAssert("no-failure", !out.Panicked)
	if !out.Panicked {
		zzAssert("metered-at-least-result-size", zzMeteredCoversResult(total, out.Value.(IntValue).BigInt, 8+1))
	}
}

//verif:harness property=C32 mode=int stubs=absbits timeout=120
func ZZ_C32_Int_Mul() {
	A, B := zzNondetBigBits(64*8), zzNondetBigBits(64*8)
	var total uint64
	out := zzCatch(func() any {
		r, err := IntValue{BigInt: new(big.Int).Set(A)}.Mul(zzGauge{&total}, IntValue{BigInt: new(big.Int).Set(B)})
		if err != nil {
			panic(err)
		}
		return r
	})
	zzAssert("no-failure", !out.Panicked)
	if !out.Panicked {
		zzAssert("metered-at-least-result-size", zzMeteredCoversResult(total, out.Value.(IntValue).BigInt, 2*8))
	}
}

//verif:harness property=C32 mode=int stubs=absbits timeout=120
func ZZ_C32_Int_Div() {
	A, B := zzNondetBigBits(64*8), zzNondetBigBits(64*8)
	zzAssume(B.Sign() != 0)
	var total uint64
	out := zzCatch(func() any {
		r, err := IntValue{BigInt: new(big.Int).Set(A)}.Div(zzGauge{&total}, IntValue{BigInt: new(big.Int).Set(B)})
		if err != nil {
			panic(err)
		}
		return r
	})
	zzAssert("no-failure", !out.Panicked)
	if !out.Panicked {
		zzAssert("metered-at-least-result-size", zzMeteredCoversResult(total, out.Value.(IntValue).BigInt, 8))
	}
}

//verif:harness property=C32 mode=int stubs=absbits timeout=120
func ZZ_C32_Int_Mod() {
	A, B := zzNondetBigBits(64*8), zzNondetBigBits(64*8)
	zzAssume(B.Sign() != 0)
	var total uint64
	out := zzCatch(func() any {
		r, err := IntValue{BigInt: new(big.Int).Set(A)}.Mod(zzGauge{&total}, IntValue{BigInt: new(big.Int).Set(B)})
		if err != nil {
			panic(err)
		}
		return r
	})
	zzAssert("no-failure", !out.Panicked)
	if !out.Panicked {
		R := out.Value.(IntValue).BigInt
		la, lb := zzWordLen(A, 8), zzWordLen(B, 8)
		// known finding: for a >= b (signed) and |b| >= 2 words the estimate is the quotient's
		// size |a|-|b|+5 words, but the remainder can have up to min(|a|,|b|) words
		zzKnownFinding("C32-mod-estimate-is-quotient-size", zzAnd(A.Cmp(B) >= 0, zzAnd(lb >= 2, la-lb+5 < zzWordLen(R, 8))))
		zzAssert("metered-at-least-result-size", zzMeteredCoversResult(total, R, 8))
	}
}

//verif:harness property=C32 mode=int stubs=absbits
func ZZ_C32_Int_Negate() {
	A := zzNondetBigBits(64 * 4)
	var total uint64
	out := zzCatch(func() any {
		return IntValue{BigInt: new(big.Int).Set(A)}.Negate(zzGauge{&total})
	})
	zzAssert("no-failure", !out.Panicked)
	if !out.Panicked {
		zzAssert("metered-at-least-result-size", zzMeteredCoversResult(total, out.Value.(IntValue).BigInt, 8))
	}
}

// ---- bitwise operations and shifts (bv-mode: operands <= 2 words, shift amounts < 256)

func zzSmallBig() *big.Int {
	x := zzNondetBig()
	zzAssume(x.CmpAbs(new(big.Int).Lsh(big.NewInt(1), 128)) < 0)
	return x
}

//verif:harness property=C32 mode=bv bigw=448 unwind=80 lens=0..2
func ZZ_C32_Int_Bitwise_LLEN() {
	A, B := zzSmallBig(), zzSmallBig()
	var total uint64
	out := zzCatch(func() any {
		x, y := IntValue{BigInt: new(big.Int).Set(A)}, IntValue{BigInt: new(big.Int).Set(B)}
		var r IntValue
		var err error
		switch LEN {
		case 0:
			r, err = x.BitwiseOr(zzGauge{&total}, y)
		case 1:
			r, err = x.BitwiseXor(zzGauge{&total}, y)
		default:
			r, err = x.BitwiseAnd(zzGauge{&total}, y)
		}
		if err != nil {
			panic(err)
		}
		return r
	})
	zzAssert("no-failure", !out.Panicked)
	if !out.Panicked {
		zzAssert("metered-at-least-result-size", zzMeteredCoversResult(total, out.Value.(IntValue).BigInt, 3))
	}
}

//verif:harness property=C32 mode=bv bigw=448 unwind=80
func ZZ_C32_Int_LeftShift() {
	A := zzSmallBig()
	S := zzNondetBig()
	zzAssume(S.Sign() >= 0)
	zzAssume(S.Cmp(big.NewInt(256)) < 0)
	var total uint64
	out := zzCatch(func() any {
		r, err := IntValue{BigInt: new(big.Int).Set(A)}.BitwiseLeftShift(zzGauge{&total}, IntValue{BigInt: new(big.Int).Set(S)})
		if err != nil {
			panic(err)
		}
		return r
	})
	zzAssert("no-failure", !out.Panicked)
	if !out.Panicked {
		zzAssert("metered-at-least-result-size", zzMeteredCoversResult(total, out.Value.(IntValue).BigInt, 6))
	}
}

//verif:harness property=C32 mode=bv bigw=448 unwind=80
func ZZ_C32_Int_RightShift() {
	A := zzSmallBig()
	S := zzNondetBig()
	zzAssume(S.Sign() >= 0)
	zzAssume(S.Cmp(big.NewInt(256)) < 0)
	var total uint64
	out := zzCatch(func() any {
		r, err := IntValue{BigInt: new(big.Int).Set(A)}.BitwiseRightShift(zzGauge{&total}, IntValue{BigInt: new(big.Int).Set(S)})
		if err != nil {
			panic(err)
		}
		return r
	})
	zzAssert("no-failure", !out.Panicked)
	if !out.Panicked {
		zzAssert("metered-at-least-result-size", zzMeteredCoversResult(total, out.Value.(IntValue).BigInt, 2))
	}
}
