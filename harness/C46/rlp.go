//verif:pkg stdlib/rlp
//verif:assume input length bounded (see bounds); every byte value and 8-byte length prefixes up to 2^64-1 are inside the bound
//verif:assume DecodeString/DecodeList are called with startIndex 0 as the Cadence wrappers do; ReadSize with arbitrary startIndex >= 0
//verif:assume array-value conversion in stdlib/rlp.go (atree) is outside the claim; its trailing-bytes test is checked on the symbolic results
//verif:assume slice growth policy of append is modelled as doubling (not observable by the code under test)
package PKGNAME

// Reference ("spec") header reader written from the RLP definition (Ethereum yellow paper,
// appendix B) without reference to the implementation. start is a valid index.
// Returns ok=false when the header is non-canonical or truncated.
func zzRlpSpecHeader(inp []byte, start int) (ok bool, isStr bool, dataStart int, dataLen uint64) {
	b := inp[start]
	if b < 0x80 {
		return true, true, start, 1
	}
	if b <= 0xb7 {
		return true, true, start + 1, uint64(b - 0x80)
	}
	if b >= 0xc0 && b <= 0xf7 {
		return true, false, start + 1, uint64(b - 0xc0)
	}
	var ll int
	if b <= 0xbf {
		ll = int(b - 0xb7)
		isStr = true
	} else {
		ll = int(b - 0xf7)
	}
	if start+1+ll > len(inp) {
		return false, false, 0, 0
	}
	if inp[start+1] == 0 {
		return false, false, 0, 0
	}
	var n uint64
	for i := 0; i < ll; i++ {
		n = n<<8 | uint64(inp[start+1+i])
	}
	if n <= 55 {
		return false, false, 0, 0
	}
	return true, isStr, start + 1 + ll, n
}

func zzBytesEq(a, b []byte) bool {
	if len(a) != len(b) {
		return false
	}
	r := true
	for i := range a {
		r = zzAnd(r, a[i] == b[i])
	}
	return r
}

//verif:harness property=C46 mode=bv unwind=40 lens=0..10 thorough_lens=0..12
func ZZ_C46_ReadSize_LLEN() {
	inp := zzNondetBytes(LEN)
	start := zzNondetInt()
	zzAssume(start >= 0)
	type rs struct {
		isStr        bool
		dStart, size int
		err          error
	}
	out := zzCatch(func() any {
		a, b, c, e := ReadSize(inp, start)
		return rs{a, b, c, e}
	})
	zzAssert("no-crash", !out.Panicked)
	if out.Panicked {
		return
	}
	r := out.Value.(rs)
	if len(inp) == 0 || start >= len(inp) {
		zzAssert("bad-start-rejected", r.err != nil)
		return
	}
	ok, isStr, ds, dl := zzRlpSpecHeader(inp, start)
	if !ok || dl > 0x7fffffffffffffff {
		zzAssert("noncanonical-header-rejected", r.err != nil)
		return
	}
	zzAssert("canonical-header-accepted", r.err == nil)
	zzAssert("header-fields", zzAnd(r.isStr == isStr, zzAnd(r.dStart == ds, uint64(r.size) == dl)))
}

//verif:harness property=C46 mode=bv unwind=40 lens=0..10 thorough_lens=0..14
func ZZ_C46_DecodeString_LLEN() {
	inp := zzNondetBytes(LEN)
	type ds struct {
		str  []byte
		read int
		err  error
	}
	out := zzCatch(func() any {
		s, n, e := DecodeString(inp, 0)
		return ds{s, n, e}
	})
	kf := false
	if LEN >= 9 {
		kf = zzKnownFinding("C46-string-length-overflow", inp[0] == 0xbf && inp[1] >= 0x7f)
	}
	_ = kf
	zzAssert("no-crash", !out.Panicked)
	if out.Panicked {
		return
	}
	r := out.Value.(ds)
	if len(inp) == 0 {
		zzAssert("empty-rejected", r.err != nil)
		return
	}
	ok, isStr, dStart, dLen := zzRlpSpecHeader(inp, 0)
	canonical := ok && isStr && dLen <= uint64(len(inp)-dStart)
	if canonical && dLen == 1 && dStart == 1 && inp[1] < 0x80 {
		canonical = false
	}
	if !canonical {
		zzAssert("noncanonical-rejected", r.err != nil)
		return
	}
	zzAssert("canonical-accepted", r.err == nil)
	end := dStart + int(dLen)
	zzAssert("payload", zzBytesEq(r.str, inp[dStart:end]))
	zzAssert("bytes-read", r.read == end)
	// the Cadence wrapper rejects trailing bytes: bytesRead != len(input)
	zzAssert("trailing-bytes-detectable", (r.read != len(inp)) == (end != len(inp)))
}

//verif:harness property=C46 mode=bv unwind=40 lens=0..4 thorough_lens=0..5
func ZZ_C46_DecodeList_LLEN() {
	inp := zzNondetBytes(LEN)
	type dl struct {
		items [][]byte
		read  int
		err   error
	}
	out := zzCatch(func() any {
		s, n, e := DecodeList(inp, 0)
		return dl{s, n, e}
	})
	zzAssert("no-crash", !out.Panicked)
	if out.Panicked {
		return
	}
	r := out.Value.(dl)
	if len(inp) == 0 {
		zzAssert("empty-rejected", r.err != nil)
		return
	}
	ok, isStr, dStart, dLen := zzRlpSpecHeader(inp, 0)
	if !ok || isStr || dLen > uint64(len(inp)-dStart) {
		zzAssert("bad-list-header-rejected", r.err != nil)
		return
	}
	end := dStart + int(dLen)
	// walk the items per the spec
	pos := dStart
	n := 0
	good := true
	var starts, ends [LEN + 1]int
	for pos < end {
		iok, _, ids, idl := zzRlpSpecHeader(inp, pos)
		if !iok || ids > end || idl > uint64(end-ids) {
			good = false
			break
		}
		starts[n] = pos
		pos = ids + int(idl)
		ends[n] = pos
		n++
	}
	if !good {
		zzAssert("bad-item-rejected", r.err != nil)
		return
	}
	zzAssert("canonical-list-accepted", r.err == nil)
	zzAssert("item-count", len(r.items) == n)
	if r.err == nil && len(r.items) == n {
		for i := 0; i < n; i++ {
			zzAssert("item-bytes", zzBytesEq(r.items[i], inp[starts[i]:ends[i]]))
		}
	}
	if dLen == 0 {
		zzAssert("empty-list-read", r.read == 1)
	} else {
		zzAssert("bytes-read", r.read == end)
	}
}

// Targeted: a short-form list whose first item has a long-form (1..8 byte) length prefix. This
// reaches the 2^63..2^64 item sizes inside the bound without the path explosion of the
// unconstrained list of the same length.
//verif:harness property=C46 mode=bv unwind=40 lens=3..10 thorough_lens=3..12
func ZZ_C46_DecodeListLongItem_LLEN() {
	inp := zzNondetBytes(LEN)
	zzAssume(inp[0] >= 0xc1 && inp[0] <= 0xf7)
	zzAssume(zzOr(zzAnd(inp[1] >= 0xb8, inp[1] <= 0xbf), inp[1] >= 0xf8))
	out := zzCatch(func() any {
		_, _, e := DecodeList(inp, 0)
		return e
	})
	zzKnownFinding("C46-list-item-length-overflow", zzAnd(zzOr(inp[1] == 0xbf, inp[1] == 0xff), inp[2] >= 0x7f))
	zzAssert("no-crash", !out.Panicked)
	if out.Panicked {
		return
	}
	// an item with a long-form prefix announces more than 55 payload bytes: it can never fit
	// into an input of LEN bytes, so every such input is non-canonical/truncated
	zzAssert("rejected", out.Value != nil)
}
