//verif:pkg stdlib
//verif:dump common
//verif:dump interpreter
//verif:dump sema
//verif:assume Cadence wrappers RLPDecodeString / RLPDecodeList: byte arrays are plain element lists symbolically (atree-backed ArrayValue and a real interpreter natively); input length <= 6 (strings) / 4 (lists); thorough 9 / 5 bytes
package PKGNAME

import (
	"github.com/onflow/cadence/interpreter"
	"github.com/onflow/cadence/stdlib/rlp"
)

var zzWInterp *interpreter.Interpreter

func zzWInterpreter() *interpreter.Interpreter {
	if zzWInterp == nil {
		inter, err := interpreter.NewInterpreter(nil, nil, &interpreter.Config{Storage: interpreter.NewInMemoryStorage(nil, nil)})
		if err != nil {
			panic(err)
		}
		zzWInterp = inter
	}
	return zzWInterp
}

func zzNativeInvocationCtx() interpreter.InvocationContext { return zzWInterpreter() }

func zzWSame(a, b []byte) bool {
	if len(a) != len(b) {
		return false
	}
	ok := true
	for i := range a {
		ok = zzAnd(ok, a[i] == b[i])
	}
	return ok
}

//verif:harness property=C46 mode=bv unwind=40 stubs=bytearrays lens=0..6 thorough_lens=0..9
func ZZ_C46_WrapperDecodeString_LLEN() {
	inp := zzNondetBytes(LEN)
	ctx := zzNativeInvocationCtx()
	arr := interpreter.ByteSliceToByteArrayValue(ctx, append([]byte{}, inp...))
	out := zzCatch(func() any { return RLPDecodeString(arr, ctx) })
	// reference: the library function on the same bytes (its own behaviour is the subject of the
	// other C46 harnesses); the wrapper must accept exactly when it succeeds AND consumed everything
	ref, read, err := rlp.DecodeString(append([]byte{}, inp...), 0)
	if err != nil || read != len(inp) {
		zzAssert("rejected-with-user-error", out.PanicIs("*stdlib.RLPDecodeStringError"))
		return
	}
	zzAssert("accepted", !out.Panicked)
	if out.Panicked {
		return
	}
	got, cerr := interpreter.ByteArrayValueToByteSlice(ctx, out.Value.(interpreter.Value))
	zzAssert("payload", cerr == nil && zzWSame(got, ref))
}

//verif:harness property=C46 mode=bv unwind=40 stubs=bytearrays lens=0..4 thorough_lens=0..5
func ZZ_C46_WrapperDecodeList_LLEN() {
	inp := zzNondetBytes(LEN)
	ctx := zzNativeInvocationCtx()
	arr := interpreter.ByteSliceToByteArrayValue(ctx, append([]byte{}, inp...))
	out := zzCatch(func() any { return RLPDecodeList(arr, ctx) })
	ref, read, err := rlp.DecodeList(append([]byte{}, inp...), 0)
	if err != nil || read != len(inp) {
		zzAssert("rejected-with-user-error", out.PanicIs("*stdlib.RLPDecodeListError"))
		return
	}
	zzAssert("accepted", !out.Panicked)
	if out.Panicked {
		return
	}
	res := out.Value.(*interpreter.ArrayValue)
	zzAssert("item-count", res.Count() == len(ref))
	if res.Count() == len(ref) {
		for i := range ref {
			item, cerr := interpreter.ByteArrayValueToByteSlice(ctx, res.Get(ctx, i))
			zzAssert("item-bytes", cerr == nil && zzWSame(item, ref[i]))
		}
	}
}
