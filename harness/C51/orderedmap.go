//verif:pkg common/orderedmap
//verif:assume ordered map: every sequence of NOPS operations (Set/Delete/Get/Clear with symbolic int32 keys and values) from the zero value and from New(); Go's builtin map is modelled as an association list with symbolic key equality; "few thousand operations" are outside the bound
package PKGNAME

type zzOMModel struct {
	ks, vs []int32
}

func (m *zzOMModel) find(k int32) int {
	for i := range m.ks {
		if m.ks[i] == k {
			return i
		}
	}
	return -1
}

func (m *zzOMModel) set(k, v int32) (old int32, present bool) {
	if i := m.find(k); i >= 0 {
		old = m.vs[i]
		m.vs[i] = v
		return old, true
	}
	m.ks = append(m.ks, k)
	m.vs = append(m.vs, v)
	return 0, false
}

func (m *zzOMModel) del(k int32) (old int32, present bool) {
	i := m.find(k)
	if i < 0 {
		return 0, false
	}
	old = m.vs[i]
	m.ks = append(append([]int32{}, m.ks[:i]...), m.ks[i+1:]...)
	m.vs = append(append([]int32{}, m.vs[:i]...), m.vs[i+1:]...)
	return old, true
}

// zzOMAgree compares every observation of the real map with the model.
func zzOMAgree(om *OrderedMap[int32, int32], m *zzOMModel, probe int32) {
	zzAssert("len", om.Len() == len(m.ks))
	var ks, vs []int32
	om.Foreach(func(k, v int32) {
		ks = append(ks, k)
		vs = append(vs, v)
	})
	zzAssert("iteration-count", len(ks) == len(m.ks))
	if len(ks) == len(m.ks) {
		same := true
		for i := range ks {
			same = zzAnd(same, zzAnd(ks[i] == m.ks[i], vs[i] == m.vs[i]))
		}
		zzAssert("iteration-is-insertion-order", same)
	}
	if len(m.ks) == 0 {
		zzAssert("oldest-newest-empty", om.Oldest() == nil && om.Newest() == nil)
	} else {
		o, n := om.Oldest(), om.Newest()
		zzAssert("oldest-newest", o != nil && n != nil && o.Key == m.ks[0] && n.Key == m.ks[len(m.ks)-1])
	}
	i := m.find(probe)
	v, ok := om.Get(probe)
	zzAssert("get", ok == (i >= 0) && (i < 0 || v == m.vs[i]))
	zzAssert("contains", om.Contains(probe) == (i >= 0))
	anyEq := false
	allNe := true
	for _, k := range m.ks {
		anyEq = zzOr(anyEq, k == probe)
		allNe = zzAnd(allNe, k != probe)
	}
	zzAssert("for-any-key", om.ForAnyKey(func(k int32) bool { return k == probe }) == anyEq)
	zzAssert("for-all-keys", om.ForAllKeys(func(k int32) bool { return k != probe }) == allNe)
}

func zzOMRun(om *OrderedMap[int32, int32], nops int) {
	m := &zzOMModel{}
	out := zzCatch(func() any {
		zzOMAgree(om, m, zzNondetInt32())
		for i := 0; i < nops; i++ {
			k := zzNondetInt32()
			switch zzChoice(4) {
			case 0:
				v := zzNondetInt32()
				old, present := om.Set(k, v)
				mo, mp := m.set(k, v)
				zzAssert("set-result", present == mp && (!mp || old == mo))
			case 1:
				old, present := om.Delete(k)
				mo, mp := m.del(k)
				zzAssert("delete-result", present == mp && (!mp || old == mo))
			case 2:
				p := om.GetPair(k)
				j := m.find(k)
				zzAssert("get-pair", (p != nil) == (j >= 0) && (p == nil || (p.Key == k && p.Value == m.vs[j])))
			default:
				om.Clear()
				m.ks, m.vs = nil, nil
			}
			zzOMAgree(om, m, zzNondetInt32())
		}
		return nil
	})
	zzAssert("no-crash", !out.Panicked)
}

//verif:harness property=C51 mode=bv unwind=40 lens=1..3 thorough_lens=1..4 steps=20000000
func ZZ_C51_OrderedMap_ZeroValue_LLEN() {
	var om OrderedMap[int32, int32]
	zzOMRun(&om, LEN)
}

//verif:harness property=C51 mode=bv unwind=40 lens=1..3 thorough_lens=1..4 steps=20000000
func ZZ_C51_OrderedMap_New_LLEN() {
	zzOMRun(New[OrderedMap[int32, int32]](4), LEN)
}

// key-set algebra on two maps built by symbolic insertions
//verif:harness property=C51 mode=bv unwind=40 steps=20000000
func ZZ_C51_OrderedMap_KeySets() {
	a, b := &OrderedMap[int32, int32]{}, &OrderedMap[int32, int32]{}
	ma, mb := &zzOMModel{}, &zzOMModel{}
	for i := 0; i < 2; i++ {
		k := zzNondetInt32()
		a.Set(k, 1)
		ma.set(k, 1)
		k2 := zzNondetInt32()
		b.Set(k2, 2)
		mb.set(k2, 2)
	}
	out := zzCatch(func() any {
		inter := KeySetIntersection(a, b)
		union := KeySetUnion(a, b)
		disj := a.KeySetIsDisjointFrom(b)
		p := zzNondetInt32()
		inA, inB := ma.find(p) >= 0, mb.find(p) >= 0
		zzAssert("intersection-membership", inter.Contains(p) == (inA && inB))
		zzAssert("union-membership", union.Contains(p) == (inA || inB))
		anyCommon := false
		for _, k := range ma.ks {
			anyCommon = zzOr(anyCommon, mb.find(k) >= 0)
		}
		zzAssert("disjointness", disj == !anyCommon)
		return nil
	})
	zzAssert("no-crash", !out.Panicked)
}
