//verif:pkg common/persistent
//verif:assume persistent ordered set: chains of up to 3 sets (parent links via Clone) with NOPS symbolic Add operations distributed over the chain, against a list model; membership, emptiness and iteration order (own items in insertion order, then the parent's)
package PKGNAME

func zzListHas(l []int16, x int16) bool {
	r := false
	for _, y := range l {
		r = zzOr(r, x == y)
	}
	return r
}

//verif:harness property=C51 mode=bv unwind=40 lens=1..3 thorough_lens=1..4 steps=20000000
func ZZ_C51_OrderedSet_LLEN() {
	// chain: s0 <- s1 <- s2 (s2's parent is s1 ...)
	sets := []*OrderedSet[int16]{NewOrderedSet[int16](nil)}
	models := [][]int16{nil}
	out := zzCatch(func() any {
		for i := 0; i < LEN; i++ {
			switch zzChoice(2) {
			case 0:
				if len(sets) < 3 {
					sets = append(sets, sets[len(sets)-1].Clone())
					models = append(models, nil)
				}
			default:
				x := zzNondetInt16()
				top := len(sets) - 1
				// model: added to the top set unless visible anywhere in the chain
				vis := false
				for _, m := range models {
					for _, y := range m {
						if y == x {
							vis = true
						}
					}
				}
				sets[top].Add(x)
				if !vis {
					models[top] = append(models[top], x)
				}
			}
		}
		// observations at every level of the chain
		p := zzNondetInt16()
		for lvl := range sets {
			var expect []int16
			for j := lvl; j >= 0; j-- {
				expect = append(expect, models[j]...)
			}
			zzAssert("contains", sets[lvl].Contains(p) == zzListHas(expect, p))
			zzAssert("is-empty", sets[lvl].IsEmpty() == (len(expect) == 0))
			var got []int16
			_ = sets[lvl].ForEach(func(item int16) error {
				got = append(got, item)
				return nil
			})
			zzAssert("iteration-count", len(got) == len(expect))
			if len(got) == len(expect) {
				same := true
				for i := range got {
					same = zzAnd(same, got[i] == expect[i])
				}
				zzAssert("iteration-order", same)
			}
		}
		return nil
	})
	zzAssert("no-crash", !out.Panicked)
}
