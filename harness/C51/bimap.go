//verif:pkg common/bimap
//verif:assume bimap: every sequence of NOPS Insert/Delete/DeleteInverse operations with symbolic int16 keys and values against a list-of-pairs model (a bijection)
package PKGNAME

type zzBMModel struct{ ks, vs []int16 }

func (m *zzBMModel) removeWhere(byKey bool, x int16) {
	var nk, nv []int16
	for i := range m.ks {
		var hit bool
		if byKey {
			hit = m.ks[i] == x
		} else {
			hit = m.vs[i] == x
		}
		if !hit {
			nk = append(nk, m.ks[i])
			nv = append(nv, m.vs[i])
		}
	}
	m.ks, m.vs = nk, nv
}

func zzBMAgree(b *BiMap[int16, int16], m *zzBMModel, pk, pv int16) {
	zzAssert("size", b.Size() == len(m.ks))
	fi, bi := -1, -1
	for i := range m.ks {
		if m.ks[i] == pk {
			fi = i
		}
		if m.vs[i] == pv {
			bi = i
		}
	}
	v, ok := b.Get(pk)
	zzAssert("get", ok == (fi >= 0) && (fi < 0 || v == m.vs[fi]))
	k, ok2 := b.GetInverse(pv)
	zzAssert("get-inverse", ok2 == (bi >= 0) && (bi < 0 || k == m.ks[bi]))
	zzAssert("exists", b.Exists(pk) == (fi >= 0) && b.ExistsInverse(pv) == (bi >= 0))
	// bijection invariant of the real structure
	zzAssert("both-directions-same-size", len(b.forward) == len(b.backward))
}

//verif:harness property=C51 mode=bv unwind=40 lens=1..3 thorough_lens=1..3 steps=20000000
func ZZ_C51_BiMap_LLEN() {
	b := NewBiMap[int16, int16]()
	m := &zzBMModel{}
	out := zzCatch(func() any {
		for i := 0; i < LEN; i++ {
			k, v := zzNondetInt16(), zzNondetInt16()
			switch zzChoice(3) {
			case 0:
				b.Insert(k, v)
				m.removeWhere(true, k)
				m.removeWhere(false, v)
				m.ks = append(m.ks, k)
				m.vs = append(m.vs, v)
			case 1:
				b.Delete(k)
				m.removeWhere(true, k)
			default:
				b.DeleteInverse(v)
				m.removeWhere(false, v)
			}
			zzBMAgree(b, m, zzNondetInt16(), zzNondetInt16())
		}
		return nil
	})
	zzAssert("no-crash", !out.Panicked)
}
