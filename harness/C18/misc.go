//verif:pkg interpreter
//verif:dump sema
//verif:dump common
package PKGNAME

import "github.com/onflow/cadence/common"

func zzSameBytes2(a, b []byte) bool {
	if len(a) != len(b) {
		return false
	}
	ok := true
	for i := range a {
		ok = zzAnd(ok, a[i] == b[i])
	}
	return ok
}

//verif:harness property=C18 mode=bv unwind=80
func ZZ_C18_Bool() {
	a, b := zzNondetBool(), zzNondetBool()
	out := zzCatch(func() any {
		x, y := BoolValue(a), BoolValue(b)
		zzAssert("equal", x.Equal(nil, y) == (a == b))
		// false < true
		zzAssert("less", bool(x.Less(nil, y)) == (!a && b))
		zzAssert("less-equal", bool(x.LessEqual(nil, y)) == (!a || b))
		zzAssert("greater", bool(x.Greater(nil, y)) == (a && !b))
		zzAssert("greater-equal", bool(x.GreaterEqual(nil, y)) == (a || !b))
		zzAssert("same-hash-input-iff-equal", zzSameBytes2(x.HashInput(nil, make([]byte, 32)), y.HashInput(nil, make([]byte, 32))) == (a == b))
		return nil
	})
	zzAssert("no-crash", !out.Panicked)
}

//verif:harness property=C18 mode=bv unwind=80
func ZZ_C18_Address() {
	var a, b AddressValue
	ab, bb := zzNondetBytes(8), zzNondetBytes(8)
	copy(a[:], ab)
	copy(b[:], bb)
	same := zzSameBytes2(ab, bb)
	out := zzCatch(func() any {
		zzAssert("equal", a.Equal(nil, b) == same)
		sl := 32 * zzChoice(2)
		zzAssert("same-hash-input-iff-equal", zzSameBytes2(a.HashInput(nil, make([]byte, sl)), b.HashInput(nil, make([]byte, sl))) == same)
		return nil
	})
	zzAssert("no-crash", !out.Panicked)
}

//verif:harness property=C18 mode=bv unwind=80 lens=0..3
func ZZ_C18_Path_LLEN() {
	da, db := common.PathDomain(zzNondetUint8()), common.PathDomain(zzNondetUint8())
	ia := string(zzNondetBytes(LEN))
	lb := zzChoice(4)
	ib := string(zzNondetBytes(lb))
	a, b := PathValue{Domain: da, Identifier: ia}, PathValue{Domain: db, Identifier: ib}
	same := zzAnd(da == db, ia == ib)
	out := zzCatch(func() any {
		zzAssert("equal", a.Equal(nil, b) == same)
		sl := 32 * zzChoice(2)
		zzAssert("same-hash-input-iff-equal", zzSameBytes2(a.HashInput(nil, make([]byte, sl)), b.HashInput(nil, make([]byte, sl))) == same)
		return nil
	})
	zzAssert("no-crash", !out.Panicked)
}
