//verif:pkg interpreter
//verif:dump sema
//verif:dump common
package PKGNAME

import "github.com/onflow/cadence/common"

func zzSameBytes2(a, b []byte) bool {
	if len(a) != len(b) {
		return false
	}
	ok := true
	for i := range a {
		ok = zzAnd(ok, a[i] == b[i])
	}
	return ok
}

//verif:harness property=C18 mode=bv unwind=80
func ZZ_C18_Bool() {
	a, b := zzNondetBool(), zzNondetBool()
	out := zzCatch(func() any {
		x, y := BoolValue(a), BoolValue(b)
		zzAssert("equal", x.Equal(nil, y) == (a == b))
		// false < true
		zzAssert("less", bool(x.Less(nil, y)) == (!a && b))
		zzAssert("less-equal", bool(x.LessEqual(nil, y)) == (!a || b))
		zzAssert("greater", bool(x.Greater(nil, y)) == (a && !b))
		zzAssert("greater-equal", bool(x.GreaterEqual(nil, y)) == (a || !b))
		zzAssert("same-hash-input-iff-equal", zzSameBytes2(x.HashInput(nil, make([]byte, 32)), y.HashInput(nil, make([]byte, 32))) == (a == b))
		return nil
	})
	zzAssert("no-crash", !out.Panicked)
}

//verif:harness property=C18 mode=bv unwind=80
func ZZ_C18_Address() {
	var a, b AddressValue
	ab, bb := zzNondetBytes(8), zzNondetBytes(8)
	copy(a[:], ab)
	copy(b[:], bb)
	same := zzSameBytes2(ab, bb)
	out := zzCatch(func() any {
		zzAssert("equal", a.Equal(nil, b) == same)
		sl := 32 * zzChoice(2)
		zzAssert("same-hash-input-iff-equal", zzSameBytes2(a.HashInput(nil, make([]byte, sl)), b.HashInput(nil, make([]byte, sl))) == same)
		return nil
	})
	zzAssert("no-crash", !out.Panicked)
}

//verif:harness property=C18 mode=bv unwind=80 lens=0..3
func ZZ_C18_Path_LLEN() {
	da, db := common.PathDomain(zzNondetUint8()), common.PathDomain(zzNondetUint8())
	ia := string(zzNondetBytes(LEN))
	lb := zzChoice(4)
	ib := string(zzNondetBytes(lb))
	a, b := PathValue{Domain: da, Identifier: ia}, PathValue{Domain: db, Identifier: ib}
	same := zzAnd(da == db, ia == ib)
	out := zzCatch(func() any {
		zzAssert("equal", a.Equal(nil, b) == same)
		sl := 32 * zzChoice(2)
		zzAssert("same-hash-input-iff-equal", zzSameBytes2(a.HashInput(nil, make([]byte, sl)), b.HashInput(nil, make([]byte, sl))) == same)
		return nil
	})
	zzAssert("no-crash", !out.Panicked)
}

// Strings whose content is given directly (normalisation is outside the claim): == is byte
// equality, < is the bytewise order, hash input identical iff equal.
//verif:harness property=C18 mode=bv unwind=80 lens=0..3
func ZZ_C18_String_LLEN() {
	ab := zzNondetBytes(LEN)
	bb := zzNondetBytes(zzChoice(4))
	a := &StringValue{Str: string(ab), length: -1}
	b := &StringValue{Str: string(bb), length: -1}
	same := zzSameBytes2(ab, bb)
	// reference order: first differing byte decides, else the shorter string is smaller
	n := len(ab)
	if len(bb) < n {
		n = len(bb)
	}
	less := len(ab) < len(bb)
	for i := n - 1; i >= 0; i-- {
		less = zzOr(zzAnd(ab[i] == bb[i], less), ab[i] < bb[i])
	}
	out := zzCatch(func() any {
		zzAssert("equal", a.Equal(nil, b) == same)
		zzAssert("less", bool(a.Less(nil, b)) == less)
		zzAssert("less-equal", bool(a.LessEqual(nil, b)) == zzOr(less, same))
		zzAssert("greater", bool(a.Greater(nil, b)) == zzAnd(!less, !same))
		zzAssert("greater-equal", bool(a.GreaterEqual(nil, b)) == !less)
		sl := 32 * zzChoice(2)
		zzAssert("same-hash-input-iff-equal", zzSameBytes2(a.HashInput(nil, make([]byte, sl)), b.HashInput(nil, make([]byte, sl))) == same)
		return nil
	})
	zzAssert("no-crash", !out.Panicked)
}
