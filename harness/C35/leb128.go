//verif:pkg bbq/leb128
//verif:assume decoder input buffers <= 11 bytes; integer values full width
package PKGNAME

type zzLebDec struct {
	v   int64
	u   uint64
	n   int
	err error
}

// number of 7-bit groups needed for an unsigned value (canonical LEB128 length)
func zzULen(v uint64) int {
	n := 1
	for i := 1; i < 10; i++ {
		n = zzIteInt(v >= uint64(1)<<(7*uint(i)), i+1, n)
	}
	return n
}

// canonical signed LEB128 length: smallest n with -2^(7n-1) <= v < 2^(7n-1)
func zzSLen(v int64) int {
	n := 10
	for i := 9; i >= 1; i-- {
		lim := int64(1) << (7*uint(i) - 1)
		n = zzIteInt(zzAnd(v >= -lim, v < lim), i, n)
	}
	return n
}

//verif:harness property=C35 mode=bv unwind=16
func ZZ_C35_LEB_U32_RoundTrip() {
	v := zzNondetUint32()
	extra := zzNondetBytes(2)
	out := zzCatch(func() any {
		enc := AppendUint32(nil, v)
		r, n, err := ReadUint32(append(append([]byte{}, enc...), extra...))
		zzAssert("canonical-length", len(enc) == zzULen(uint64(v)))
		zzAssert("continuation-bits", enc[len(enc)-1]&0x80 == 0)
		return zzLebDec{u: uint64(r), n: n, err: err, v: int64(len(enc))}
	})
	zzAssert("no-crash", !out.Panicked)
	if !out.Panicked {
		d := out.Value.(zzLebDec)
		zzAssert("decodes", d.err == nil)
		zzAssert("same-value", d.u == uint64(v))
		zzAssert("reported-length", int64(d.n) == d.v)
	}
}

//verif:harness property=C35 mode=bv unwind=16
func ZZ_C35_LEB_U64_RoundTrip() {
	v := zzNondetUint64()
	extra := zzNondetBytes(2)
	out := zzCatch(func() any {
		enc := AppendUint64(nil, v)
		r, n, err := ReadUint64(append(append([]byte{}, enc...), extra...))
		zzAssert("canonical-length", len(enc) == zzULen(v))
		zzAssert("continuation-bits", enc[len(enc)-1]&0x80 == 0)
		return zzLebDec{u: r, n: n, err: err, v: int64(len(enc))}
	})
	zzAssert("no-crash", !out.Panicked)
	if !out.Panicked {
		d := out.Value.(zzLebDec)
		zzAssert("decodes", d.err == nil)
		zzAssert("same-value", d.u == v)
		zzAssert("reported-length", int64(d.n) == d.v)
	}
}

//verif:harness property=C35 mode=bv unwind=16
func ZZ_C35_LEB_I32_RoundTrip() {
	v := zzNondetInt32()
	extra := zzNondetBytes(2)
	out := zzCatch(func() any {
		enc := AppendInt32(nil, v)
		r, n, err := ReadInt32(append(append([]byte{}, enc...), extra...))
		zzAssert("canonical-length", len(enc) == zzSLen(int64(v)))
		return zzLebDec{v: int64(r), n: n, err: err, u: uint64(len(enc))}
	})
	zzAssert("no-crash", !out.Panicked)
	if !out.Panicked {
		d := out.Value.(zzLebDec)
		zzAssert("decodes", d.err == nil)
		zzAssert("same-value", d.v == int64(v))
		zzAssert("reported-length", uint64(d.n) == d.u)
	}
}

//verif:harness property=C35 mode=bv unwind=16
func ZZ_C35_LEB_I64_RoundTrip() {
	v := zzNondetInt64()
	extra := zzNondetBytes(2)
	out := zzCatch(func() any {
		enc := AppendInt64(nil, v)
		r, n, err := ReadInt64(append(append([]byte{}, enc...), extra...))
		zzAssert("canonical-length", len(enc) == zzSLen(v))
		return zzLebDec{v: r, n: n, err: err, u: uint64(len(enc))}
	})
	zzAssert("no-crash", !out.Panicked)
	if !out.Panicked {
		d := out.Value.(zzLebDec)
		zzAssert("decodes", d.err == nil)
		zzAssert("same-value", d.v == v)
		zzAssert("reported-length", uint64(d.n) == d.u)
	}
}

//verif:harness property=C35 mode=bv unwind=16
func ZZ_C35_LEB_U32_Fixed() {
	v := zzNondetUint32()
	length := zzChoice(6)
	out := zzCatch(func() any {
		enc, err := AppendUint32FixedLength(nil, v, length)
		fits := length >= 5 || uint64(v) < uint64(1)<<(7*uint(length))
		zzAssert("fixed-error-iff-too-small", (err != nil) == !fits)
		if err != nil {
			return zzLebDec{err: err}
		}
		zzAssert("fixed-length", len(enc) == length)
		if length == 0 {
			return zzLebDec{}
		}
		r, n, derr := ReadUint32(enc)
		return zzLebDec{u: uint64(r), n: n, err: derr}
	})
	zzAssert("no-crash", !out.Panicked)
	if !out.Panicked {
		d := out.Value.(zzLebDec)
		if d.err == nil && length > 0 {
			zzAssert("same-value", d.u == uint64(v))
			zzAssert("reported-length", d.n == length)
		}
	}
}

// Decoders on arbitrary buffers: never crash, never report more bytes than available.
//verif:harness property=C35 mode=bv unwind=16 lens=0..11
func ZZ_C35_LEB_Decode_Robust_LLEN() {
	data := zzNondetBytes(LEN)
	which := zzChoice(4)
	out := zzCatch(func() any {
		var n int
		var err error
		switch which {
		case 0:
			_, n, err = ReadUint32(data)
		case 1:
			_, n, err = ReadUint64(data)
		case 2:
			_, n, err = ReadInt32(data)
		default:
			_, n, err = ReadInt64(data)
		}
		return zzLebDec{n: n, err: err}
	})
	zzAssert("no-crash", !out.Panicked)
	if !out.Panicked {
		d := out.Value.(zzLebDec)
		zzAssert("count-in-range", zzAnd(d.n >= 0, d.n <= len(data)))
		mx := 10
		if which == 0 || which == 2 {
			mx = 5
		}
		zzAssert("count-at-most-max", d.n <= mx)
		if d.err == nil {
			zzAssert("count-positive", d.n >= 1)
		}
	}
}
