//verif:pkg sema
//verif:dump common
//verif:dump ast
//verif:assume universe of 3 entitlements (no location, no container); authorizations are non-empty conjunction/disjunction sets over it, the unauthorized access, or access(self); entitlement maps have <= 2 relations plus the optional identity; every combination is explored by forking on the symbolic choices
//verif:assume holder semantics (oracle): a holder owns a set H of entitlements; auth(conj S) holds iff S subset of H, auth(disj S) iff S meets H; a mapped member gives the holder M[H] = union of the images of H (plus H itself with identity)
//verif:assume sync.Map / atomic.Pointer memo caches always miss (pure caches); the checker's member-access path and run-time authorization are outside
package PKGNAME

import (
	"github.com/onflow/cadence/ast"
)

func zzUniverse() [3]*EntitlementType {
	return [3]*EntitlementType{
		NewEntitlementType(nil, nil, "X"),
		NewEntitlementType(nil, nil, "Y"),
		NewEntitlementType(nil, nil, "Z"),
	}
}

func zzSetAccess(u [3]*EntitlementType, mask int, kind EntitlementSetKind) EntitlementSetAccess {
	var es []*EntitlementType
	for i := 0; i < 3; i++ {
		if mask&(1<<uint(i)) != 0 {
			es = append(es, u[i])
		}
	}
	return NewEntitlementSetAccess(es, kind)
}

// abstract authorization: kind 0 = conjunction, 1 = disjunction, 2 = unauthorized (grants nothing),
// 3 = access(self)/other primitive
type zzAuth struct {
	kind int
	mask int
}

func zzHolds(a zzAuth, h int) bool {
	switch a.kind {
	case 0:
		return a.mask&h == a.mask
	case 1:
		return a.mask&h != 0
	case 2:
		return true // no entitlement required
	}
	return false
}

func zzNondetAuth(u [3]*EntitlementType) (Access, zzAuth) {
	switch zzChoice(3) {
	case 0:
		return UnauthorizedAccess, zzAuth{kind: 2}
	case 1:
		m := zzChoice(7) + 1
		return zzSetAccess(u, m, Conjunction), zzAuth{0, m}
	default:
		m := zzChoice(7) + 1
		return zzSetAccess(u, m, Disjunction), zzAuth{1, m}
	}
}

// zzAbstract reads an Access produced by the real code back into the abstract form.
func zzAbstract(u [3]*EntitlementType, a Access) (zzAuth, bool) {
	switch x := a.(type) {
	case PrimitiveAccess:
		if x == PrimitiveAccess(ast.AccessAll) {
			return zzAuth{kind: 2}, true
		}
		return zzAuth{kind: 3}, true
	case EntitlementSetAccess:
		m := 0
		for i := 0; i < 3; i++ {
			if x.Entitlements.Contains(u[i]) {
				m |= 1 << uint(i)
			}
		}
		if x.Entitlements.Len() != zzPopcount(m) || m == 0 {
			return zzAuth{}, false
		}
		if x.SetKind == Conjunction {
			return zzAuth{0, m}, true
		}
		return zzAuth{1, m}, true
	}
	return zzAuth{}, false
}

func zzPopcount(m int) int {
	n := 0
	for i := 0; i < 3; i++ {
		if m&(1<<uint(i)) != 0 {
			n++
		}
	}
	return n
}

//verif:harness property=C06 mode=bv unwind=60 steps=50000000
func ZZ_C06_PermitsAccess() {
	u := zzUniverse()
	e, ea := zzNondetAuth(u)
	o, oa := zzNondetAuth(u)
	out := zzCatch(func() any { return e.PermitsAccess(o) })
	zzAssert("no-crash", !out.Panicked)
	if out.Panicked {
		return
	}
	// e (required by a member) permits o (held by the reference) iff every holder of o satisfies e
	expect := true
	for h := 0; h < 8; h++ {
		if zzHolds(oa, h) && !zzHolds(ea, h) {
			expect = false
		}
	}
	if ea.kind == 2 {
		// access(all)/unauthorized as a *requirement* is a primitive access: only access(self) is permitted by it
		return
	}
	zzAssert("permits-iff-every-holder-satisfies", out.Value.(bool) == expect)
	if es, ok := e.(EntitlementSetAccess); ok {
		if os, ok2 := o.(EntitlementSetAccess); ok2 {
			same := true
			for h := 0; h < 8; h++ {
				if zzHolds(oa, h) != zzHolds(ea, h) {
					same = false
				}
			}
			zzAssert("equal-iff-same-meaning-and-kind", es.Equal(os) == (same && ea.kind == oa.kind))
		}
	}
}

//verif:harness property=C06 mode=bv unwind=60 steps=50000000
func ZZ_C06_IntersectAccess() {
	u := zzUniverse()
	a, aa := zzNondetAuth(u)
	b, ba := zzNondetAuth(u)
	out := zzCatch(func() any { return IntersectAccess(a, b) })
	zzAssert("no-crash", !out.Panicked)
	if out.Panicked {
		return
	}
	ra, ok := zzAbstract(u, out.Value.(Access))
	zzAssert("result-is-well-formed", ok)
	if !ok {
		return
	}
	weaker := true
	for h := 0; h < 8; h++ {
		if zzHolds(aa, h) && !zzHolds(ra, h) {
			weaker = false
		}
		if zzHolds(ba, h) && !zzHolds(ra, h) {
			weaker = false
		}
	}
	zzAssert("intersection-never-grants-more-than-either", weaker)
	out2 := zzCatch(func() any { return IntersectAccess(b, a) })
	if !out2.Panicked {
		rb, ok2 := zzAbstract(u, out2.Value.(Access))
		zzAssert("intersection-symmetric", ok2 && rb == ra)
	}
}

// entitlement map with <= 2 symbolic relations and optional identity
func zzNondetMap(u [3]*EntitlementType) (*EntitlementMapType, [3]int, bool) {
	m := NewEntitlementMapType(nil, nil, "M")
	var img [3]int
	for r := 0; r < 2; r++ {
		c := zzChoice(10)
		if c == 9 {
			continue
		}
		in, outp := c/3, c%3
		m.Relations = append(m.Relations, NewEntitlementRelation(nil, u[in], u[outp]))
		img[in] |= 1 << uint(outp)
	}
	ident := zzChoice(2) == 1
	m.IncludesIdentity = ident
	return m, img, ident
}

//verif:harness property=C06 mode=bv unwind=60 steps=100000000
func ZZ_C06_MapImage() {
	u := zzUniverse()
	mt, img, ident := zzNondetMap(u)
	a, aa := zzNondetAuth(u)
	ma := NewEntitlementMapAccess(mt)
	type res struct {
		acc Access
		err error
	}
	out := zzCatch(func() any {
		r, err := ma.Image(nil, a, ast.EmptyRange)
		return res{r, err}
	})
	zzAssert("no-crash", !out.Panicked)
	if out.Panicked {
		return
	}
	r := out.Value.(res)
	// image of each universe element under the map (with identity)
	var full [3]int
	for i := 0; i < 3; i++ {
		full[i] = img[i]
		if ident {
			full[i] |= 1 << uint(i)
		}
	}
	if r.err != nil {
		// only allowed: a disjunction with a member whose image has more than one element
		multi := false
		for i := 0; i < 3; i++ {
			if aa.kind == 1 && aa.mask&(1<<uint(i)) != 0 && zzPopcount(full[i]) > 1 {
				multi = true
			}
		}
		zzAssert("error-only-for-unrepresentable-disjunction", multi)
		return
	}
	ra, ok := zzAbstract(u, r.acc)
	zzAssert("result-is-well-formed", ok)
	if !ok {
		return
	}
	if aa.kind == 2 {
		zzAssert("unauthorized-maps-to-unauthorized", ra.kind == 2)
		return
	}
	// soundness for holders: whoever holds the input authorization really obtains what the
	// output authorization promises
	sound := true
	for h := 0; h < 8; h++ {
		if !zzHolds(aa, h) {
			continue
		}
		got := 0
		for i := 0; i < 3; i++ {
			if h&(1<<uint(i)) != 0 {
				got |= full[i]
			}
		}
		if ra.kind != 2 && !zzHolds(ra, got) {
			sound = false
		}
	}
	zzKnownFinding("C06-disjunction-image-ignores-empty-member-images", aa.kind == 1)
	zzAssert("image-grants-only-what-every-holder-obtains", sound)
	// domain = inputs of the relations
	dom := 0
	for i := 0; i < 3; i++ {
		if img[i] != 0 {
			dom |= 1 << uint(i)
		}
	}
	d := ma.Domain()
	dm := 0
	for i := 0; i < 3; i++ {
		if d.Entitlements.Contains(u[i]) {
			dm |= 1 << uint(i)
		}
	}
	zzAssert("domain-is-relation-inputs", dm == dom && d.SetKind == Conjunction)
}
