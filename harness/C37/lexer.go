//verif:pkg parser/lexer
//verif:dump parser/lexer
//verif:dump common
//verif:assume lexer kernel of C37: lexer.Lex on every byte string of the stated length (all byte values, incl. invalid UTF-8), alone and after a fixed prefix that puts the lexer into one of its modes (string, string template, block comment, number, line comment, arrow), then the whole token stream read through Next(); sync.Pool modelled as "Get returns the last Put object, else New()"; fmt.Errorf messages are opaque; parser and checker are outside
//verif:assume position oracle: line(o) = 1 + number of '\n' before offset o; column(o) in one of the two conventions found in the code base, the same one for every position of a stream: bytes since the line start (ast.Position's field comment, ast.NewPositionAtCodeOffset) or characters since the line start (what the lexer counts; a character is what utf8.DecodeRune yields, an invalid byte is one character)
package PKGNAME

import (
	"unicode/utf8"

	"github.com/onflow/cadence/ast"
)

type zzOracle struct {
	n                int
	lineAt           []int
	colByte, colRune []int
	okByte, okRune   bool
	strictByte       bool
	strictRune       bool
	okLine           bool
	emptyLines       []int
}

func zzNewOracle(in []byte) *zzOracle {
	n := len(in)
	or := &zzOracle{n: n, lineAt: make([]int, n+1), colByte: make([]int, n+1), colRune: make([]int, n+1), okByte: true, okRune: true, strictByte: true, strictRune: true, okLine: true}
	line, cb, cr := 1, 0, 0
	o := 0
	for o < n {
		r, w := utf8.DecodeRune(in[o:])
		if w <= 0 {
			w = 1
		}
		for j := 0; j < w; j++ {
			or.lineAt[o+j] = line
			or.colByte[o+j] = cb + j
			or.colRune[o+j] = cr
		}
		if r == '\n' {
			line++
			cb, cr = 0, 0
		} else {
			cb += w
			cr++
		}
		o += w
	}
	or.lineAt[n] = line
	or.colByte[n] = cb
	or.colRune[n] = cr
	return or
}

// see records a reported position (its offset is in 0..n).  drift is the number of empty string
// tokens emitted earlier on the same line (known finding: each shifts the later columns by one).
func (or *zzOracle) see(p ast.Position) {
	if p.Line != or.lineAt[p.Offset] {
		or.okLine = false
	}
	drift := 0
	for _, l := range or.emptyLines {
		if l == or.lineAt[p.Offset] {
			drift++
		}
	}
	if p.Column != or.colByte[p.Offset] {
		or.strictByte = false
	}
	if p.Column != or.colRune[p.Offset] {
		or.strictRune = false
	}
	if p.Column-drift != or.colByte[p.Offset] {
		or.okByte = false
	}
	if p.Column-drift != or.colRune[p.Offset] {
		or.okRune = false
	}
}

// zzCheckStream reads the whole token stream of a lexed input and checks it.
func zzCheckStream(ts TokenStream, in []byte) {
	n := len(in)
	or := zzNewOracle(in)
	cur := 0
	depth := 0
	lastWasError := false
	for i := 0; i < n+3; i++ {
		tk := ts.Next()
		s, e := tk.StartPos, tk.EndPos
		if tk.Type == TokenEOF {
			inRange := s.Offset >= 0 && s.Offset <= n
			zzAssert("eof-offset-in-range", inRange)
			zzAssert("eof-at-end-of-input-unless-stopped-by-error", lastWasError || s.Offset == n)
			if inRange {
				or.see(s)
			}
			zzAssert("lines-match-offsets", or.okLine)
			zzAssert("columns-match-offsets-in-one-convention-up-to-the-recorded-drift", or.okByte || or.okRune)
			// known finding: an empty string token (after a string template) still advances the column
			zzKnownFinding("C37-column-drift-after-empty-string-token", len(or.emptyLines) > 0)
			zzAssert("columns-match-offsets-in-one-convention", or.strictByte || or.strictRune)
			zzKnownFindingEnd("C37-column-drift-after-empty-string-token")
			// known finding: the text after the last delimiter of an unterminated block comment
			// is in no token
			zzKnownFinding("C37-unterminated-block-comment-content-not-emitted", depth > 0)
			zzAssert("tokens-cover-the-input-unless-stopped-by-error", lastWasError || cur == n)
			return
		}
		if tk.Type != TokenError && s.Offset == e.Offset+1 && s.Offset == cur && s.Offset <= n {
			// an empty token (the empty rest of a string after a template): covers nothing,
			// sits where the next token starts
			or.see(s)
			or.emptyLines = append(or.emptyLines, or.lineAt[s.Offset])
			lastWasError = false
			continue
		}
		inRange := s.Offset >= 0 && s.Offset <= e.Offset && e.Offset < n
		zzAssert("token-offsets-in-range", inRange)
		if !inRange {
			return
		}
		or.see(s)
		or.see(e)
		if tk.Type == TokenError {
			// error tokens are out of band: they do not consume input
			lastWasError = true
			continue
		}
		lastWasError = false
		if tk.Type == TokenBlockCommentStart {
			depth++
		} else if tk.Type == TokenBlockCommentEnd {
			depth--
		}
		zzAssert("tokens-contiguous", s.Offset == cur)
		cur = e.Offset + 1
	}
	zzAssert("stream-ends", false)
}

func zzLexAndCheck(in []byte) {
	var ts TokenStream
	var err error
	out := zzCatch(func() any {
		ts, err = Lex(in, nil)
		return nil
	})
	zzAssert("no-crash", !out.Panicked)
	if out.Panicked {
		return
	}
	zzAssert("no-internal-error", err == nil)
	if err != nil {
		return
	}
	zzCheckStream(ts, in)
}

func zzWithPrefix(prefix string, rest []byte) []byte {
	in := make([]byte, 0, len(prefix)+len(rest))
	in = append(in, prefix...)
	in = append(in, rest...)
	return in
}

// zzPooled: see ZZ_C37_LexPooled.
func zzPooled(free []byte) {
	earlier := [6]string{"\"\\(", "\"\\((", "/* a", "a\n\nb", "\x80", "0."}
	a := []byte(earlier[zzChoice(6)])
	openers := [2]string{"", "\"\\("}
	b := zzWithPrefix(openers[zzChoice(2)], free)
	var t1, t2 [10]Token
	n1, n2 := 0, 0
	out := zzCatch(func() any {
		fresh, err := Lex(b, nil)
		if err != nil {
			return nil
		}
		for n1 < len(t1) {
			t1[n1] = fresh.Next()
			n1++
			if t1[n1-1].Type == TokenEOF {
				break
			}
		}
		first, _ := Lex(a, nil)
		for i := 0; i < len(a)+2; i++ {
			if first.Next().Type == TokenEOF {
				break
			}
		}
		first.Reclaim()
		reused, err := Lex(b, nil)
		if err != nil {
			return nil
		}
		for n2 < len(t2) {
			t2[n2] = reused.Next()
			n2++
			if t2[n2-1].Type == TokenEOF {
				break
			}
		}
		return nil
	})
	zzAssert("no-crash", !out.Panicked)
	if out.Panicked {
		return
	}
	zzAssert("same-number-of-tokens-as-a-fresh-lexer", n1 == n2)
	if n1 != n2 {
		return
	}
	for i := 0; i < n1; i++ {
		zzAssert("same-token-as-a-fresh-lexer", t1[i].Type == t2[i].Type && t1[i].Range == t2[i].Range)
	}
}

//verif:harness property=C37 mode=bv unwind=40 lens=0..2 thorough_lens=0..2 steps=40000000
func ZZ_C37_Lex_LLEN() {
	zzLexAndCheck(zzNondetBytes(LEN))
}

//verif:harness property=C37 mode=bv unwind=40 lens=1..2 thorough_lens=1..2 steps=40000000
func ZZ_C37_LexInTemplate_LLEN() {
	zzLexAndCheck(zzWithPrefix("\"\\(", zzNondetBytes(LEN)))
}

//verif:harness property=C37 mode=bv unwind=40 lens=1..4 thorough_lens=1..4 steps=40000000
func ZZ_C37_LexInBlockComment_LLEN() {
	zzLexAndCheck(zzWithPrefix("/*", zzNondetBytes(LEN)))
}

//verif:harness property=C37 mode=bv unwind=40 lens=1..3 thorough_lens=1..3 steps=40000000
func ZZ_C37_LexInString_LLEN() {
	zzLexAndCheck(zzWithPrefix("\"", zzNondetBytes(LEN)))
}

//verif:harness property=C37 mode=bv unwind=40 lens=1..2 thorough_lens=1..2 steps=40000000
func ZZ_C37_LexAfterZero_LLEN() {
	zzLexAndCheck(zzWithPrefix("0", zzNondetBytes(LEN)))
}

// Characters of 2..4 bytes and invalid bytes: every string of 3 (thorough 4) bytes >= 0x80, alone,
// in a line comment, in a string and in a block comment.
//
//verif:harness property=C37 mode=bv unwind=40 lens=3..5 thorough_lens=3..6 steps=40000000
func ZZ_C37_LexNonASCII_LLEN() {
	prefixes := [4]string{"", "//", "\"", "/*"}
	suffixes := [4]string{"", "\nx", "\" x", "*/x"}
	k := zzChoice(4)
	b := zzNondetBytes(LEN)
	for _, c := range b {
		zzAssume(c >= 0x80)
	}
	zzLexAndCheck(append(zzWithPrefix(prefixes[k], b), suffixes[k]...))
}

//verif:harness property=C37 mode=bv unwind=40 lens=1..3 thorough_lens=1..3 steps=40000000
func ZZ_C37_LexInLineComment_LLEN() {
	zzLexAndCheck(zzWithPrefix("//", zzNondetBytes(LEN)))
}

//verif:harness property=C37 mode=bv unwind=40 tier=thorough lens=1..2 thorough_lens=1..2 steps=40000000
func ZZ_C37_LexAfterFraction_LLEN() {
	zzLexAndCheck(zzWithPrefix("1.", zzNondetBytes(LEN)))
}

//verif:harness property=C37 mode=bv unwind=40 tier=thorough lens=1..2 thorough_lens=1..2 steps=40000000
func ZZ_C37_LexAfterArrow_LLEN() {
	zzLexAndCheck(zzWithPrefix("<-", zzNondetBytes(LEN)))
}

// The pooled lexer: lexing B after an earlier text A (read to its end, then given back to the pool)
// yields exactly the token stream a fresh lexer yields.  A is one of six texts that leave mode,
// bracket count, line/column, cursor and tokens behind; B is "" or a string-template opener followed
// by LEN free bytes (quick: from 12 mode-sensitive characters; thorough: any byte).
//
//verif:harness property=C37 mode=bv unwind=40 lens=2..2 thorough_lens=2..2 steps=40000000
func ZZ_C37_LexPooled_LLEN() {
	free := zzNondetBytes(LEN)
	for _, c := range free {
		zzAssume(c == '\\' || c == '(' || c == ')' || c == '"' || c == '/' || c == '*' || c == 'a' || c == '\n' || c == '0' || c == '.' || c == ' ' || c == 0xC3)
	}
	zzPooled(free)
}

//verif:harness property=C37 mode=bv unwind=40 tier=thorough lens=2..2 thorough_lens=2..2 steps=40000000
func ZZ_C37_LexPooledAnyByte_LLEN() {
	zzPooled(zzNondetBytes(LEN))
}
