//verif:pkg interpreter
//verif:dump interpreter
//verif:dump sema
//verif:dump common
//verif:assume checker <-> run-time type conversion kernel: every primitive static type number 0..255 (a symbolic uint8; numbers without a checker type are skipped; Capability and the deprecated AuthAccount/PublicAccount numbers, which convert to other types by design, are excluded) and derived types (optional, variable/constant-sized array, dictionary, unauthorized reference, capability, nested optional-array) over such primitives: ConvertStaticToSemaType followed by ConvertSemaToStaticType yields an equal static type, and the type ID is the same in both representations; composite/interface/intersection types and entitlement authorizations need an elaborated program and are outside
package PKGNAME

import (
	"github.com/onflow/cadence/common"
	"github.com/onflow/cadence/errors"
	"github.com/onflow/cadence/sema"
)

// zzConv is the smallest TypeConverter: no gauge, no elaborated program (composite, interface and
// entitlement lookups are not reached by the types of this harness).
type zzConv struct{}

var _ TypeConverter = zzConv{}

func (zzConv) MeterMemory(common.MemoryUsage) error { return nil }

func (zzConv) GetEntitlementType(TypeID) (*sema.EntitlementType, error) {
	panic(errors.NewUnreachableError())
}

func (zzConv) GetEntitlementMapType(TypeID) (*sema.EntitlementMapType, error) {
	panic(errors.NewUnreachableError())
}

func (zzConv) GetInterfaceType(common.Location, string, TypeID) (*sema.InterfaceType, error) {
	panic(errors.NewUnreachableError())
}

func (zzConv) GetCompositeType(common.Location, string, TypeID) (*sema.CompositeType, error) {
	panic(errors.NewUnreachableError())
}

func (c zzConv) SemaTypeFromStaticType(t StaticType) sema.Type {
	return MustConvertStaticToSemaType(t, c)
}

func (c zzConv) SemaAccessFromStaticAuthorization(auth Authorization) (sema.Access, error) {
	return ConvertStaticAuthorizationToSemaAccess(auth, c)
}

// zzDefinedPrimitive: p has a checker type and converts back to itself by design.
func zzPrimitiveSema(p PrimitiveStaticType) sema.Type {
	if p == PrimitiveStaticTypeCapability || p == PrimitiveStaticTypeAuthAccount || p == PrimitiveStaticTypePublicAccount { //nolint:staticcheck
		return nil
	}
	var st sema.Type
	out := zzCatch(func() any {
		st = p.SemaType()
		return nil
	})
	if out.Panicked {
		return nil
	}
	return st
}

//verif:harness property=C45 mode=bv unwind=80 steps=40000000
func ZZ_C45_PrimitiveStaticType_SemaRoundTrip() {
	p := PrimitiveStaticType(zzNondetUint8())
	st := zzPrimitiveSema(p)
	if st == nil {
		return
	}
	q := ConvertSemaToPrimitiveStaticType(nil, st)
	zzAssert("sema-to-static-is-inverse", q == p)
	zzAssert("same-type-id", string(p.ID()) == string(st.ID()))
}

//verif:harness property=C45 mode=bv unwind=80 steps=40000000
func ZZ_C45_DerivedStaticType_SemaRoundTrip() {
	p := PrimitiveStaticType(zzNondetUint8())
	// dictionary keys: one of four fixed primitive types (a second symbolic type would square the path count)
	keys := [4]PrimitiveStaticType{PrimitiveStaticTypeString, PrimitiveStaticTypeInt, PrimitiveStaticTypeAddress, PrimitiveStaticTypeBool}
	q := keys[zzChoice(4)]
	if zzPrimitiveSema(p) == nil {
		return
	}
	size := zzNondetInt64()
	zzAssume(size >= 0)
	var t StaticType
	k := zzChoice(8)
	switch k {
	case 0:
		t = NewOptionalStaticType(nil, p)
	case 1:
		t = NewVariableSizedStaticType(nil, p)
	case 2:
		t = NewConstantSizedStaticType(nil, p, size)
	case 3:
		t = NewDictionaryStaticType(nil, q, p)
	case 4:
		t = NewReferenceStaticType(nil, UnauthorizedAccess, p)
	case 5:
		t = NewCapabilityStaticType(nil, p)
	case 7:
		t = NewReferenceStaticType(nil, InaccessibleAccess, p)
	default:
		t = NewOptionalStaticType(nil, NewVariableSizedStaticType(nil, p))
	}
	var st sema.Type
	var err error
	out := zzCatch(func() any {
		st, err = ConvertStaticToSemaType(zzConv{}, t)
		return nil
	})
	zzAssert("static-to-sema-no-crash", !out.Panicked)
	if out.Panicked {
		return
	}
	zzAssert("static-to-sema-ok", err == nil && st != nil)
	if err != nil || st == nil {
		return
	}
	var back StaticType
	out = zzCatch(func() any {
		back = ConvertSemaToStaticType(nil, st)
		return nil
	})
	zzAssert("sema-to-static-no-crash", !out.Panicked)
	if out.Panicked {
		return
	}
	zzAssert("round-trip-equal", back != nil && back.Equal(t) && t.Equal(back))
	if k != 7 {
		// (a reference with inaccessible authorization has no type ID: ID() raises an unexpected error by design)
		zzAssert("same-type-id", string(t.ID()) == string(st.ID()))
	}
}
