//verif:pkg common
//verif:assume kernel: location type IDs: for address locations with arbitrary address bytes, transaction and script locations with three arbitrary ID bytes (first, middle, last; the others fixed) and a qualified identifier of 0..3 arbitrary bytes, the type ID produced by Location.TypeID decodes (per-kind decoder) to the same location and qualified identifier; string/identifier locations for location strings and identifiers without a '.'; the dispatch table of decoders, type IDs of sema/static/external type graphs and run-time type constructors are outside
package PKGNAME

func zzEqBytes(a, b []byte) bool {
	if len(a) != len(b) {
		return false
	}
	ok := true
	for i := range a {
		ok = zzAnd(ok, a[i] == b[i])
	}
	return ok
}

// 32-byte IDs: three arbitrary bytes (first, middle, last), the rest a fixed pattern (bound)
func zzFillID(id []byte) {
	for i := range id {
		id[i] = 0xa5
	}
	b := zzNondetBytes(3)
	id[0], id[len(id)/2], id[len(id)-1] = b[0], b[1], b[2]
}

func zzNoDot(b []byte) bool {
	ok := true
	for _, c := range b {
		ok = zzAnd(ok, c != '.')
	}
	return ok
}

//verif:harness property=C45 mode=bv unwind=80 lens=0..3 steps=30000000
func ZZ_C45_AddressLocation_LLEN() {
	var addr Address
	copy(addr[:], zzNondetBytes(8))
	q := zzNondetBytes(LEN)
	qid := string(q)
	loc := AddressLocation{Address: addr}
	type res struct {
		loc AddressLocation
		qid string
		err error
	}
	out := zzCatch(func() any {
		id := loc.TypeID(nil, qid)
		l, q2, err := decodeAddressLocationTypeID(nil, string(id))
		return res{l, q2, err}
	})
	zzAssert("no-crash", !out.Panicked)
	if out.Panicked {
		return
	}
	r := out.Value.(res)
	zzAssert("decodes", r.err == nil)
	if r.err != nil {
		return
	}
	zzAssert("same-address", zzEqBytes(r.loc.Address[:], addr[:]))
	zzAssert("same-qualified-identifier", r.qid == qid)
	// the contract name is the first component of the qualified identifier
	n := len(q)
	for i := len(q) - 1; i >= 0; i-- {
		n = zzIteInt(q[i] == '.', i, n)
	}
	zzAssert("name-is-first-component", len(r.loc.Name) == n && zzEqBytes([]byte(r.loc.Name), q[:len(r.loc.Name)]))
}

//verif:harness property=C45 mode=bv unwind=80 lens=0..3 steps=30000000
func ZZ_C45_TransactionLocation_LLEN() {
	var loc TransactionLocation
	zzFillID(loc[:])
	qid := string(zzNondetBytes(LEN))
	type res struct {
		loc TransactionLocation
		qid string
		err error
	}
	out := zzCatch(func() any {
		id := loc.TypeID(nil, qid)
		l, q2, err := decodeTransactionLocationTypeID(nil, string(id))
		return res{l, q2, err}
	})
	zzAssert("no-crash", !out.Panicked)
	if out.Panicked {
		return
	}
	r := out.Value.(res)
	zzAssert("decodes", r.err == nil)
	if r.err == nil {
		zzAssert("same-location", zzEqBytes(r.loc[:], loc[:]))
		zzAssert("same-qualified-identifier", r.qid == qid)
	}
}

//verif:harness property=C45 mode=bv unwind=80 lens=0..3 steps=30000000
func ZZ_C45_ScriptLocation_LLEN() {
	var loc ScriptLocation
	zzFillID(loc[:])
	qid := string(zzNondetBytes(LEN))
	type res struct {
		loc ScriptLocation
		qid string
		err error
	}
	out := zzCatch(func() any {
		id := loc.TypeID(nil, qid)
		l, q2, err := decodeScriptLocationTypeID(nil, string(id))
		return res{l, q2, err}
	})
	zzAssert("no-crash", !out.Panicked)
	if out.Panicked {
		return
	}
	r := out.Value.(res)
	zzAssert("decodes", r.err == nil)
	if r.err == nil {
		zzAssert("same-location", zzEqBytes(r.loc[:], loc[:]))
		zzAssert("same-qualified-identifier", r.qid == qid)
	}
}

//verif:harness property=C45 mode=bv unwind=80 lens=0..3 steps=30000000
func ZZ_C45_StringLocation_LLEN() {
	lb := zzNondetBytes(zzChoice(4))
	zzAssume(zzNoDot(lb))
	loc := StringLocation(string(lb))
	qid := string(zzNondetBytes(LEN))
	type res struct {
		loc StringLocation
		qid string
		err error
	}
	out := zzCatch(func() any {
		id := loc.TypeID(nil, qid)
		l, q2, err := decodeStringLocationTypeID(nil, string(id))
		return res{l, q2, err}
	})
	zzAssert("no-crash", !out.Panicked)
	if out.Panicked {
		return
	}
	r := out.Value.(res)
	zzAssert("decodes", r.err == nil)
	if r.err == nil {
		zzAssert("same-location", string(r.loc) == string(loc))
		zzAssert("same-qualified-identifier", r.qid == qid)
	}
}

//verif:harness property=C45 mode=bv unwind=80 lens=0..3 steps=30000000
func ZZ_C45_IdentifierLocation_LLEN() {
	lb := zzNondetBytes(zzChoice(4))
	zzAssume(zzNoDot(lb))
	loc := IdentifierLocation(string(lb))
	qid := string(zzNondetBytes(LEN))
	type res struct {
		loc IdentifierLocation
		qid string
		err error
	}
	out := zzCatch(func() any {
		id := loc.TypeID(nil, qid)
		l, q2, err := decodeIdentifierLocationTypeID(nil, string(id))
		return res{l, q2, err}
	})
	zzAssert("no-crash", !out.Panicked)
	if out.Panicked {
		return
	}
	r := out.Value.(res)
	zzAssert("decodes", r.err == nil)
	if r.err == nil {
		zzAssert("same-location", string(r.loc) == string(loc))
		zzAssert("same-qualified-identifier", r.qid == qid)
	}
}
