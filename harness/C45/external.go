//verif:pkg runtime
//verif:dump runtime
//verif:dump interpreter
//verif:dump sema
//verif:dump common
//verif:dump .
//verif:assume exported (external) representation kernel: for every primitive static type number that has a checker type (a symbolic uint8; Capability, the deprecated account types and the checker's InvalidType placeholder excluded) and optional / variable-sized array / dictionary / unauthorized reference / capability types over it: runtime.ExportType of the checker type has the checker type's ID, and runtime.ImportType of the exported type is the run-time static type again; composite and interface types need an elaborated program and are outside
package PKGNAME

import (
	"github.com/onflow/cadence"
	"github.com/onflow/cadence/interpreter"
	"github.com/onflow/cadence/sema"
)

func zzPrimSema(p interpreter.PrimitiveStaticType) sema.Type {
	if p == interpreter.PrimitiveStaticTypeCapability || p == interpreter.PrimitiveStaticTypeAuthAccount || p == interpreter.PrimitiveStaticTypePublicAccount { //nolint:staticcheck
		return nil
	}
	var st sema.Type
	out := zzCatch(func() any {
		st = p.SemaType()
		return nil
	})
	if out.Panicked || st == sema.InvalidType {
		// InvalidType is the checker's placeholder after a type error: not exportable by design
		return nil
	}
	return st
}

//verif:harness property=C45 mode=bv unwind=80 steps=40000000
func ZZ_C45_ExportedType_SameIDAndBack() {
	p := interpreter.PrimitiveStaticType(zzNondetUint8())
	pst := zzPrimSema(p)
	if pst == nil {
		return
	}
	var st sema.Type
	var static interpreter.StaticType
	switch zzChoice(6) {
	case 0:
		st, static = pst, p
	case 1:
		st, static = sema.NewOptionalType(nil, pst), interpreter.NewOptionalStaticType(nil, p)
	case 2:
		st, static = sema.NewVariableSizedType(nil, pst), interpreter.NewVariableSizedStaticType(nil, p)
	case 3:
		st, static = sema.NewDictionaryType(nil, sema.StringType, pst), interpreter.NewDictionaryStaticType(nil, interpreter.PrimitiveStaticTypeString, p)
	case 4:
		st, static = sema.NewReferenceType(nil, sema.UnauthorizedAccess, pst), interpreter.NewReferenceStaticType(nil, interpreter.UnauthorizedAccess, p)
	default:
		st, static = sema.NewCapabilityType(nil, pst), interpreter.NewCapabilityStaticType(nil, p)
	}
	var ext cadence.Type
	out := zzCatch(func() any {
		ext = ExportType(st, map[sema.TypeID]cadence.Type{})
		return nil
	})
	zzAssert("export-no-crash", !out.Panicked)
	if out.Panicked {
		return
	}
	zzAssert("exported", ext != nil)
	if ext == nil {
		return
	}
	zzAssert("same-type-id-in-checker-and-external-form", ext.ID() == string(st.ID()))
	zzAssert("same-type-id-in-run-time-and-external-form", ext.ID() == string(static.ID()))
	var back interpreter.StaticType
	out = zzCatch(func() any {
		back = ImportType(nil, ext)
		return nil
	})
	zzAssert("import-no-crash", !out.Panicked)
	if out.Panicked {
		return
	}
	zzAssert("import-of-export-is-the-static-type", back != nil && back.Equal(static))
}
