//verif:pkg interpreter
//verif:dump sema
//verif:dump common
//verif:dump values
//verif:assume operands satisfy the representation invariant and have equal types; gauge nil; big-int metering estimators stubbed (C32)
//verif:assume Int/UInt: |value| < 2^128 and shift amounts < 128 or beyond uint64 (shifts in [128, 2^64) of unbounded integers are outside the bound)
package PKGNAME

import "math/big"

// zzTwos reduces v to the two's-complement range of the given width.
func zzTwos(v *big.Int, bits uint, signed bool) *big.Int {
	m := new(big.Int).Lsh(big.NewInt(1), bits)
	r := new(big.Int).Mod(v, m)
	if signed {
		half := new(big.Int).Lsh(big.NewInt(1), bits-1)
		r = zzIteBig(r.Cmp(half) >= 0, new(big.Int).Sub(r, m), r)
	}
	return r
}

// zzBitwiseOK: bit i of R equals (bit i of A) op (bit i of B) for every i < bits, on the
// two's-complement representations. op: 0 and, 1 or, 2 xor.
func zzBitwiseOK(A, B, R *big.Int, bits int, op int) bool {
	ok := true
	for i := 0; i < bits; i++ {
		a, b, r := A.Bit(i), B.Bit(i), R.Bit(i)
		var e uint
		switch op {
		case 0:
			e = a & b
		case 1:
			e = a | b
		default:
			e = a ^ b
		}
		ok = zzAnd(ok, r == e)
	}
	return ok
}

// zzIsFloorShift: R == floor(A / 2^s)
func zzIsFloorShift(A, R *big.Int, s uint) bool {
	lo := new(big.Int).Lsh(R, s)
	d := new(big.Int).Sub(A, lo)
	return zzAnd(d.Sign() >= 0, d.Cmp(new(big.Int).Lsh(big.NewInt(1), s)) < 0)
}
