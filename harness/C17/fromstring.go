//verif:pkg interpreter
//verif:dump sema
//verif:dump common
//verif:dump values
//verif:assume fromString (integer types): every string of 0..3 arbitrary bytes through the real parser table (interpreter.StringValueParsers, initialised by executing its initialiser); grammar oracle from the language reference: decimal digits only, an optional + or - prefix only for signed types; strconv.ParseInt/ParseUint run from source, big.Int.SetString(s, 10) by its documented grammar; longer strings, toString and the fixed-point and Address parsers are outside
package PKGNAME

import "math/big"

func zzIntegerToBig(v Value) *big.Int {
	switch x := v.(type) {
	case Int8Value:
		return big.NewInt(int64(x))
	case Int16Value:
		return big.NewInt(int64(x))
	case Int32Value:
		return big.NewInt(int64(x))
	case Int64Value:
		return big.NewInt(int64(x))
	case Int128Value:
		return x.BigInt
	case Int256Value:
		return x.BigInt
	case IntValue:
		return x.BigInt
	case UInt8Value:
		return big.NewInt(int64(x))
	case UInt16Value:
		return big.NewInt(int64(x))
	case UInt32Value:
		return big.NewInt(int64(x))
	case UInt64Value:
		return new(big.Int).SetUint64(uint64(x))
	case UInt128Value:
		return x.BigInt
	case UInt256Value:
		return x.BigInt
	case UIntValue:
		return x.BigInt
	case Word8Value:
		return big.NewInt(int64(x))
	case Word16Value:
		return big.NewInt(int64(x))
	case Word32Value:
		return big.NewInt(int64(x))
	case Word64Value:
		return new(big.Int).SetUint64(uint64(x))
	case Word128Value:
		return x.BigInt
	case Word256Value:
		return x.BigInt
	}
	return nil
}

// grammar of the language reference: digits only; optional sign for signed types
func zzDecimal(b []byte, signed bool) (valid bool, val int64) {
	i := 0
	neg := false
	if signed && len(b) > 0 && (b[0] == '+' || b[0] == '-') {
		neg = b[0] == '-'
		i = 1
	}
	if i >= len(b) {
		return false, 0
	}
	for ; i < len(b); i++ {
		if b[i] < '0' || b[i] > '9' {
			return false, 0
		}
		val = val*10 + int64(b[i]-'0')
	}
	if neg {
		val = -val
	}
	return true, val
}

// fixed-point grammar of the reference: [sign] digits '.' digits, sign only for signed types
func zzFixedDecimal(b []byte, signed bool) (valid bool, neg bool, ip int64, fp int64, fd int) {
	i := 0
	if signed && len(b) > 0 && (b[0] == '+' || b[0] == '-') {
		neg = b[0] == '-'
		i = 1
	}
	nd := 0
	for ; i < len(b) && b[i] >= '0' && b[i] <= '9'; i++ {
		ip = ip*10 + int64(b[i]-'0')
		nd++
	}
	if nd == 0 || i >= len(b) || b[i] != '.' {
		return false, false, 0, 0, 0
	}
	i++
	for ; i < len(b) && b[i] >= '0' && b[i] <= '9'; i++ {
		fp = fp*10 + int64(b[i]-'0')
		fd++
	}
	if fd == 0 || i != len(b) {
		return false, false, 0, 0, 0
	}
	return true, neg, ip, fp, fd
}

func zzPow10i(n int) int64 {
	r := int64(1)
	for i := 0; i < n; i++ {
		r *= 10
	}
	return r
}

func zzFromStringFixed(b []byte) {
	s := string(b)
	var name string
	var signed bool
	scale := 8
	switch zzChoice(4) {
	case 0:
		name, signed = "Fix64", true
	case 1:
		name, signed = "UFix64", false
	case 2:
		name, signed, scale = "Fix128", true, 24
	default:
		name, signed, scale = "UFix128", false, 24
	}
	out := zzCatch(func() any { return StringValueParsers[name].Parser(nil, s) })
	zzAssert("no-crash", !out.Panicked)
	if out.Panicked {
		return
	}
	valid, neg, ip, fp, fd := zzFixedDecimal(b, signed)
	some, accepted := out.Value.(*SomeValue)
	zzKnownFinding("C17-unsigned-fixed-fromString-accepts-plus", !signed && len(b) > 0 && b[0] == '+')
	zzAssert("accepted-iff-fixed-point-literal", accepted == valid)
	if !accepted || !valid {
		return
	}
	// exact raw value: +-(ip*10^scale + fp*10^(scale-fd)); strings of <= 4 bytes are always in range
	mag := new(big.Int).Add(
		new(big.Int).Mul(big.NewInt(ip), new(big.Int).Exp(big.NewInt(10), big.NewInt(int64(scale)), nil)),
		new(big.Int).Mul(big.NewInt(fp), new(big.Int).Exp(big.NewInt(10), big.NewInt(int64(scale-fd)), nil)))
	if neg {
		mag = new(big.Int).Neg(mag)
	}
	var got *big.Int
	switch v := some.value.(type) {
	case Fix64Value:
		got = big.NewInt(int64(v))
	case UFix64Value:
		got = new(big.Int).SetUint64(uint64(v.UFix64Value))
	case Fix128Value:
		got = v.ToBigInt()
	case UFix128Value:
		got = v.ToBigInt()
	}
	zzAssert("parsed-value", got != nil && got.Cmp(mag) == 0)
}

func zzFromStringCheck(typeName string, b []byte, signed bool, min, max int64) {
	s := string(b)
	out := zzCatch(func() any { return StringValueParsers[typeName].Parser(nil, s) })
	zzAssert("no-crash", !out.Panicked)
	if out.Panicked {
		return
	}
	valid, val := zzDecimal(b, signed)
	expectAccept := valid && val >= min && val <= max
	some, accepted := out.Value.(*SomeValue)
	zzKnownFinding("C17-unsigned-big-fromString-accepts-sign", !signed && len(b) > 0 && (b[0] == '+' || b[0] == '-'))
	zzAssert("accepted-iff-decimal-literal-in-range", accepted == expectAccept)
	if accepted && expectAccept {
		got := zzIntegerToBig(some.value)
		zzAssert("parsed-value", got != nil && got.Cmp(big.NewInt(val)) == 0)
	}
}

//verif:harness property=C17 mode=bv bigw=320 unwind=60 lens=0..3 steps=30000000 stubs=metering
func ZZ_C17_FromString_Signed_LLEN() {
	b := zzNondetBytes(LEN)
	switch zzChoice(7) {
	case 0:
		zzFromStringCheck("Int8", b, true, -128, 127)
	case 1:
		zzFromStringCheck("Int16", b, true, -32768, 32767)
	case 2:
		zzFromStringCheck("Int32", b, true, -1000, 1000)
	case 3:
		zzFromStringCheck("Int64", b, true, -1000, 1000)
	case 4:
		zzFromStringCheck("Int128", b, true, -1000, 1000)
	case 5:
		zzFromStringCheck("Int256", b, true, -1000, 1000)
	default:
		zzFromStringCheck("Int", b, true, -1000, 1000)
	}
}

//verif:harness property=C17 mode=bv bigw=320 unwind=60 lens=0..3 steps=30000000 stubs=metering
func ZZ_C17_FromString_Unsigned_LLEN() {
	b := zzNondetBytes(LEN)
	switch zzChoice(13) {
	case 0:
		zzFromStringCheck("UInt8", b, false, 0, 255)
	case 1:
		zzFromStringCheck("UInt16", b, false, 0, 1000)
	case 2:
		zzFromStringCheck("UInt32", b, false, 0, 1000)
	case 3:
		zzFromStringCheck("UInt64", b, false, 0, 1000)
	case 4:
		zzFromStringCheck("UInt128", b, false, 0, 1000)
	case 5:
		zzFromStringCheck("UInt256", b, false, 0, 1000)
	case 6:
		zzFromStringCheck("UInt", b, false, 0, 1000)
	case 7:
		zzFromStringCheck("Word8", b, false, 0, 255)
	case 8:
		zzFromStringCheck("Word16", b, false, 0, 1000)
	case 9:
		zzFromStringCheck("Word32", b, false, 0, 1000)
	case 10:
		zzFromStringCheck("Word64", b, false, 0, 1000)
	case 11:
		zzFromStringCheck("Word128", b, false, 0, 1000)
	default:
		zzFromStringCheck("Word256", b, false, 0, 1000)
	}
}

//verif:harness property=C17 mode=bv bigw=320 unwind=60 lens=0..3 thorough_lens=0..4 steps=30000000 stubs=metering
func ZZ_C17_FromString_Fixed_LLEN() {
	zzFromStringFixed(zzNondetBytes(LEN))
}

// four bytes starting with a sign: the shortest strings with a sign prefix and both parts
//verif:harness property=C17 mode=bv bigw=320 unwind=60 steps=30000000 stubs=metering
func ZZ_C17_FromString_Fixed_Signed4() {
	b := zzNondetBytes(4)
	zzAssume(zzOr(b[0] == '+', b[0] == '-'))
	zzFromStringFixed(b)
}

