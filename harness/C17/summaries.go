//verif:pkg values
//verif:assume the two summaries used by other checks (values.SignedBigIntToSizedBigEndianBytes, values.BigEndianBytesToSignedBigInt) are verified here against the real bodies (stubs=nosum)
package PKGNAME

import "math/big"

// spec: big-endian bytes of (x mod 2^(8n))
func zzSpecSizedBytes(x *big.Int, n int) []byte {
	m := new(big.Int).Lsh(big.NewInt(1), uint(8*n))
	r := new(big.Int).Mod(x, m)
	buf := make([]byte, n)
	r.FillBytes(buf)
	return buf
}

func zzSameBytes(a, b []byte) bool {
	if len(a) != len(b) {
		return false
	}
	ok := true
	for i := range a {
		ok = zzAnd(ok, a[i] == b[i])
	}
	return ok
}

//verif:harness property=C17 mode=bv bigw=288 stubs=nosum unwind=80
func ZZ_C17_Sum_SignedSized_16() {
	x := zzNondetBig()
	lim := new(big.Int).Lsh(big.NewInt(1), 128)
	zzAssume(x.Cmp(new(big.Int).Neg(lim)) >= 0)
	zzAssume(x.Cmp(lim) < 0)
	out := zzCatch(func() any { return SignedBigIntToSizedBigEndianBytes(new(big.Int).Set(x), 16) })
	zzAssert("no-crash", !out.Panicked)
	if !out.Panicked {
		zzAssert("twos-complement-bytes", zzSameBytes(out.Value.([]byte), zzSpecSizedBytes(x, 16)))
	}
}

//verif:harness property=C17 mode=bv bigw=544 stubs=nosum unwind=80 timeout=300
func ZZ_C17_Sum_SignedSized_32() {
	x := zzNondetBig()
	lim := new(big.Int).Lsh(big.NewInt(1), 256)
	zzAssume(x.Cmp(new(big.Int).Neg(lim)) >= 0)
	zzAssume(x.Cmp(lim) < 0)
	out := zzCatch(func() any { return SignedBigIntToSizedBigEndianBytes(new(big.Int).Set(x), 32) })
	zzAssert("no-crash", !out.Panicked)
	if !out.Panicked {
		zzAssert("twos-complement-bytes", zzSameBytes(out.Value.([]byte), zzSpecSizedBytes(x, 32)))
	}
}

// BigEndianBytesToSignedBigInt on every byte string of the given length: value = two's
// complement reading; the input is complemented in place exactly when it is negative.
//verif:harness property=C17 mode=bv bigw=288 stubs=nosum unwind=80 lens=0..33
func ZZ_C17_Sum_BytesToSigned_LLEN() {
	b := zzNondetBytes(LEN)
	orig := append([]byte{}, b...)
	out := zzCatch(func() any { return BigEndianBytesToSignedBigInt(b) })
	zzAssert("no-crash", !out.Panicked)
	if out.Panicked {
		return
	}
	r := out.Value.(*big.Int)
	if LEN == 0 {
		zzAssert("empty-is-zero", r.Sign() == 0)
		return
	}
	u := new(big.Int).SetBytes(orig)
	neg := orig[0]&0x80 != 0
	want := zzIteBig(neg, new(big.Int).Sub(u, new(big.Int).Lsh(big.NewInt(1), uint(8*LEN))), u)
	zzAssert("signed-reading", r.Cmp(want) == 0)
	inplace := true
	for i := range b {
		inplace = zzAnd(inplace, b[i] == byte(zzIteInt(neg, int(^orig[i]), int(orig[i]))))
	}
	zzAssert("in-place-complement-iff-negative", inplace)
}
