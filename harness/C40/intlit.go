//verif:pkg parser
//verif:dump common
//verif:dump ast
//verif:assume integer literal parsing (parser.parseIntegerLiteral): token text of 0..3 (thorough 4) bytes over the digit alphabet of the base plus '_' (what the lexer produces; the base prefix is already stripped), bases 2/8/10/16; big.Int.SetString(s, base) by its documented grammar, strings.ReplaceAll by its meaning; the lexer itself and string/character escapes are outside
package PKGNAME

import (
	"math/big"

	"github.com/onflow/cadence/ast"
	"github.com/onflow/cadence/common"
)

func zzDigitVal(c byte) int64 {
	if c <= '9' {
		return int64(c - '0')
	}
	if c >= 'a' {
		return int64(c-'a') + 10
	}
	return int64(c-'A') + 10
}

func zzInAlphabet(c byte, base int) bool {
	if c == '_' {
		return true
	}
	switch base {
	case 2:
		return c == '0' || c == '1'
	case 8:
		return c >= '0' && c <= '7'
	case 10:
		return c >= '0' && c <= '9'
	}
	return (c >= '0' && c <= '9') || (c >= 'a' && c <= 'f') || (c >= 'A' && c <= 'F')
}

//verif:harness property=C40 mode=bv bigw=64 unwind=60 stubs=metering lens=0..3 thorough_lens=0..4 steps=30000000
func ZZ_C40_IntegerLiteralText_LLEN() {
	kinds := [4]common.IntegerLiteralKind{common.IntegerLiteralKindBinary, common.IntegerLiteralKindOctal, common.IntegerLiteralKindDecimal, common.IntegerLiteralKindHexadecimal}
	bases := [4]int{2, 8, 10, 16}
	k := zzChoice(4)
	base := bases[k]
	text := zzNondetBytes(LEN)
	for _, c := range text {
		zzAssume(zzInAlphabet(c, base))
	}
	p := &parser{}
	out := zzCatch(func() any {
		return parseIntegerLiteral(p, append([]byte{}, text...), append([]byte{}, text...), kinds[k], ast.EmptyRange)
	})
	zzAssert("no-crash", !out.Panicked)
	if out.Panicked {
		return
	}
	e := out.Value.(*ast.IntegerExpression)
	// mathematical value of the digits, underscores skipped
	val := int64(0)
	nd := 0
	for _, c := range text {
		if c != '_' {
			val = val*int64(base) + zzDigitVal(c)
			nd++
		}
	}
	zzAssert("denotes-its-mathematical-value", e.Value.Cmp(big.NewInt(val)) == 0)
	zzAssert("base", e.Base == base)
	bad := nd == 0 || (len(text) > 0 && (text[0] == '_' || text[len(text)-1] == '_'))
	zzAssert("error-iff-misplaced-underscore-or-no-digits", (len(p.errors) > 0) == bad)
}

// Fixed-point literal text: <integer part> '.' <fractional part>, both over digits and '_' (what the
// lexer produces); i free bytes before the point, LEN-i after it.
//
//verif:harness property=C40 mode=bv bigw=64 unwind=60 stubs=metering lens=0..3 thorough_lens=0..4 steps=30000000
func ZZ_C40_FixedPointLiteralText_LLEN() {
	free := zzNondetBytes(LEN)
	for _, c := range free {
		zzAssume(zzInAlphabet(c, 10))
	}
	i := zzChoice(LEN + 1)
	text := make([]byte, 0, LEN+1)
	text = append(text, free[:i]...)
	text = append(text, '.')
	text = append(text, free[i:]...)
	p := &parser{}
	out := zzCatch(func() any {
		return parseFixedPointLiteral(p, text, ast.EmptyRange)
	})
	zzAssert("no-crash", !out.Panicked)
	if out.Panicked {
		return
	}
	e := out.Value.(*ast.FixedPointExpression)
	iv, fv := int64(0), int64(0)
	nf := 0
	for k, c := range free {
		if c == '_' {
			continue
		}
		if k < i {
			iv = iv*10 + zzDigitVal(c)
		} else {
			fv = fv*10 + zzDigitVal(c)
			nf++
		}
	}
	if nf == 0 {
		nf = 1
	}
	zzAssert("integer-part-value", e.UnsignedInteger.Cmp(big.NewInt(iv)) == 0)
	zzAssert("fractional-part-value", e.Fractional.Cmp(big.NewInt(fv)) == 0)
	zzAssert("scale-is-number-of-fractional-digits", e.Scale == uint(nf))
	zzAssert("not-negative", !e.Negative)
}
