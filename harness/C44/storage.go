//verif:pkg interpreter
//verif:dump interpreter
//verif:dump common
//verif:dump sema
//verif:dump values
//verif:assume storage codec kernel of C44: for every scalar storable value of the kind (full width; Int/UInt |x| < 2^128; ASCII strings <= 3 bytes - other text passes through x/text's NFC tables, out of reach -, path identifiers <= 2 bytes of valid UTF-8) the real Storable.Encode through atree.Encoder and github.com/fxamacker/cbor's stream encoder (run from source), followed by the real interpreter.DecodeStorable, yields a storable of the same kind and content, and re-encoding the decoded storable yields identical bytes; and every primitive static type number plus optional / array / dictionary / reference / capability types over symbolic primitive element types round-trip through StaticTypeToBytes / StaticTypeFromBytes to an equal type with identical re-encoding; containers, composites, capability and type values, composite/interface/intersection static types, entitlement authorizations, slabs and cross-version stability (needs a stored corpus) are outside
package PKGNAME

import (
	"bytes"
	"math/big"
	"unicode/utf8"

	"github.com/onflow/atree"
	fix "github.com/onflow/fixed-point"

	"github.com/onflow/cadence/common"
	"github.com/onflow/cadence/values"
)

var _ = big.NewInt
var _ = utf8.Valid
var _ = common.PathDomainStorage
var _ fix.Fix128

func zzEncodeStorable(s atree.Storable) ([]byte, error) {
	var buf bytes.Buffer
	enc := atree.NewEncoder(&buf, CBOREncMode)
	err := s.Encode(enc)
	if err != nil {
		return nil, err
	}
	err = enc.CBOR.Flush()
	if err != nil {
		return nil, err
	}
	return buf.Bytes(), nil
}

// zzStoreRoundTrip: encode, decode, re-encode.
func zzStoreRoundTrip(s atree.Storable) (atree.Storable, bool) {
	var b []byte
	var err error
	out := zzCatch(func() any {
		b, err = zzEncodeStorable(s)
		return nil
	})
	zzAssert("encode-no-crash", !out.Panicked)
	if out.Panicked {
		return nil, false
	}
	zzAssert("encode-ok", err == nil)
	if err != nil {
		return nil, false
	}
	var d atree.Storable
	out = zzCatch(func() any {
		dec := CBORDecMode.NewByteStreamDecoder(b)
		d, err = DecodeStorable(dec, atree.SlabID{}, nil, nil)
		return nil
	})
	zzAssert("decode-no-crash", !out.Panicked)
	if out.Panicked {
		return nil, false
	}
	zzAssert("decode-ok", err == nil)
	if err != nil {
		return nil, false
	}
	var b2 []byte
	out = zzCatch(func() any {
		b2, err = zzEncodeStorable(d)
		return nil
	})
	zzAssert("re-encode-no-crash", !out.Panicked)
	if out.Panicked {
		return nil, false
	}
	zzAssert("re-encode-identical-bytes", err == nil && bytes.Equal(b, b2))
	return d, true
}

// ---- static types

func zzStaticTypeRoundTrip(t StaticType) (StaticType, bool) {
	var b []byte
	var err error
	out := zzCatch(func() any {
		b, err = StaticTypeToBytes(t)
		return nil
	})
	zzAssert("encode-no-crash", !out.Panicked)
	if out.Panicked {
		return nil, false
	}
	zzAssert("encode-ok", err == nil)
	if err != nil {
		return nil, false
	}
	var d StaticType
	out = zzCatch(func() any {
		d, err = StaticTypeFromBytes(b)
		return nil
	})
	zzAssert("decode-no-crash", !out.Panicked)
	if out.Panicked {
		return nil, false
	}
	zzAssert("decode-ok", err == nil && d != nil)
	if err != nil || d == nil {
		return nil, false
	}
	var b2 []byte
	out = zzCatch(func() any {
		b2, err = StaticTypeToBytes(d)
		return nil
	})
	zzAssert("re-encode-no-crash", !out.Panicked)
	if out.Panicked {
		return nil, false
	}
	zzAssert("re-encode-identical-bytes", err == nil && bytes.Equal(b, b2))
	return d, true
}

//verif:harness property=C44 mode=bv unwind=80 steps=40000000
func ZZ_C44_Storable_Int8() {
	x := zzNondetInt8()
	v := NewUnmeteredInt8Value(x)
	d, ok := zzStoreRoundTrip(v)
	if !ok {
		return
	}
	u, same := d.(Int8Value)
	zzAssert("same-kind", same)
	if same {
		zzAssert("same-value", u == v)
	}
}

//verif:harness property=C44 mode=bv unwind=80 steps=40000000
func ZZ_C44_Storable_Int16() {
	x := zzNondetInt16()
	v := NewUnmeteredInt16Value(x)
	d, ok := zzStoreRoundTrip(v)
	if !ok {
		return
	}
	u, same := d.(Int16Value)
	zzAssert("same-kind", same)
	if same {
		zzAssert("same-value", u == v)
	}
}

//verif:harness property=C44 mode=bv unwind=80 steps=40000000
func ZZ_C44_Storable_Int32() {
	x := zzNondetInt32()
	v := NewUnmeteredInt32Value(x)
	d, ok := zzStoreRoundTrip(v)
	if !ok {
		return
	}
	u, same := d.(Int32Value)
	zzAssert("same-kind", same)
	if same {
		zzAssert("same-value", u == v)
	}
}

//verif:harness property=C44 mode=bv unwind=80 steps=40000000
func ZZ_C44_Storable_Int64() {
	x := zzNondetInt64()
	v := NewUnmeteredInt64Value(x)
	d, ok := zzStoreRoundTrip(v)
	if !ok {
		return
	}
	u, same := d.(Int64Value)
	zzAssert("same-kind", same)
	if same {
		zzAssert("same-value", u == v)
	}
}

//verif:harness property=C44 mode=bv unwind=80 steps=40000000
func ZZ_C44_Storable_UInt8() {
	x := zzNondetUint8()
	v := NewUnmeteredUInt8Value(x)
	d, ok := zzStoreRoundTrip(v)
	if !ok {
		return
	}
	u, same := d.(UInt8Value)
	zzAssert("same-kind", same)
	if same {
		zzAssert("same-value", u == v)
	}
}

//verif:harness property=C44 mode=bv unwind=80 steps=40000000
func ZZ_C44_Storable_UInt16() {
	x := zzNondetUint16()
	v := NewUnmeteredUInt16Value(x)
	d, ok := zzStoreRoundTrip(v)
	if !ok {
		return
	}
	u, same := d.(UInt16Value)
	zzAssert("same-kind", same)
	if same {
		zzAssert("same-value", u == v)
	}
}

//verif:harness property=C44 mode=bv unwind=80 steps=40000000
func ZZ_C44_Storable_UInt32() {
	x := zzNondetUint32()
	v := NewUnmeteredUInt32Value(x)
	d, ok := zzStoreRoundTrip(v)
	if !ok {
		return
	}
	u, same := d.(UInt32Value)
	zzAssert("same-kind", same)
	if same {
		zzAssert("same-value", u == v)
	}
}

//verif:harness property=C44 mode=bv unwind=80 steps=40000000
func ZZ_C44_Storable_UInt64() {
	x := zzNondetUint64()
	v := NewUnmeteredUInt64Value(x)
	d, ok := zzStoreRoundTrip(v)
	if !ok {
		return
	}
	u, same := d.(UInt64Value)
	zzAssert("same-kind", same)
	if same {
		zzAssert("same-value", u == v)
	}
}

//verif:harness property=C44 mode=bv unwind=80 steps=40000000
func ZZ_C44_Storable_Word8() {
	x := zzNondetUint8()
	v := NewUnmeteredWord8Value(x)
	d, ok := zzStoreRoundTrip(v)
	if !ok {
		return
	}
	u, same := d.(Word8Value)
	zzAssert("same-kind", same)
	if same {
		zzAssert("same-value", u == v)
	}
}

//verif:harness property=C44 mode=bv unwind=80 steps=40000000
func ZZ_C44_Storable_Word16() {
	x := zzNondetUint16()
	v := NewUnmeteredWord16Value(x)
	d, ok := zzStoreRoundTrip(v)
	if !ok {
		return
	}
	u, same := d.(Word16Value)
	zzAssert("same-kind", same)
	if same {
		zzAssert("same-value", u == v)
	}
}

//verif:harness property=C44 mode=bv unwind=80 steps=40000000
func ZZ_C44_Storable_Word32() {
	x := zzNondetUint32()
	v := NewUnmeteredWord32Value(x)
	d, ok := zzStoreRoundTrip(v)
	if !ok {
		return
	}
	u, same := d.(Word32Value)
	zzAssert("same-kind", same)
	if same {
		zzAssert("same-value", u == v)
	}
}

//verif:harness property=C44 mode=bv unwind=80 steps=40000000
func ZZ_C44_Storable_Word64() {
	x := zzNondetUint64()
	v := NewUnmeteredWord64Value(x)
	d, ok := zzStoreRoundTrip(v)
	if !ok {
		return
	}
	u, same := d.(Word64Value)
	zzAssert("same-kind", same)
	if same {
		zzAssert("same-value", u == v)
	}
}

//verif:harness property=C44 mode=bv unwind=80 steps=40000000
func ZZ_C44_Storable_Fix64() {
	x := zzNondetInt64()
	v := NewUnmeteredFix64Value(x)
	d, ok := zzStoreRoundTrip(v)
	if !ok {
		return
	}
	u, same := d.(Fix64Value)
	zzAssert("same-kind", same)
	if same {
		zzAssert("same-value", u == v)
	}
}

//verif:harness property=C44 mode=bv unwind=80 steps=40000000
func ZZ_C44_Storable_UFix64() {
	x := zzNondetUint64()
	v := NewUnmeteredUFix64Value(x)
	d, ok := zzStoreRoundTrip(v)
	if !ok {
		return
	}
	u, same := d.(UFix64Value)
	zzAssert("same-kind", same)
	if same {
		zzAssert("same-value", u == v)
	}
}

//verif:harness property=C44 mode=bv bigw=144 unwind=80 stubs=metering steps=40000000
func ZZ_C44_Storable_Int() {
	x := zzNondetBigBits(136)
	zzAssume(x.Cmp(new(big.Int).Lsh(big.NewInt(1), 127)) < 0 && x.Cmp(new(big.Int).Neg(new(big.Int).Lsh(big.NewInt(1), 127))) >= 0)
	v := NewUnmeteredIntValueFromBigInt(new(big.Int).Set(x))
	d, ok := zzStoreRoundTrip(v)
	if !ok {
		return
	}
	u, same := d.(IntValue)
	zzAssert("same-kind", same)
	if same {
		zzAssert("same-value", u.BigInt.Cmp(x) == 0)
	}
}

//verif:harness property=C44 mode=bv bigw=144 unwind=80 stubs=metering steps=40000000
func ZZ_C44_Storable_UInt() {
	x := zzNondetBigBits(136)
	zzAssume(x.Sign() >= 0 && x.Cmp(new(big.Int).Lsh(big.NewInt(1), 128)) < 0)
	v := NewUnmeteredUIntValueFromBigInt(new(big.Int).Set(x))
	d, ok := zzStoreRoundTrip(v)
	if !ok {
		return
	}
	u, same := d.(UIntValue)
	zzAssert("same-kind", same)
	if same {
		zzAssert("same-value", u.BigInt.Cmp(x) == 0)
	}
}

//verif:harness property=C44 mode=bv bigw=144 unwind=80 stubs=metering steps=40000000
func ZZ_C44_Storable_Int128() {
	x := zzNondetBigBits(136)
	zzAssume(x.Cmp(new(big.Int).Lsh(big.NewInt(1), 127)) < 0 && x.Cmp(new(big.Int).Neg(new(big.Int).Lsh(big.NewInt(1), 127))) >= 0)
	v := NewUnmeteredInt128ValueFromBigInt(new(big.Int).Set(x))
	d, ok := zzStoreRoundTrip(v)
	if !ok {
		return
	}
	u, same := d.(Int128Value)
	zzAssert("same-kind", same)
	if same {
		zzAssert("same-value", u.BigInt.Cmp(x) == 0)
	}
}

//verif:harness property=C44 mode=bv bigw=144 unwind=80 stubs=metering steps=40000000
func ZZ_C44_Storable_UInt128() {
	x := zzNondetBigBits(136)
	zzAssume(x.Sign() >= 0 && x.Cmp(new(big.Int).Lsh(big.NewInt(1), 128)) < 0)
	v := NewUnmeteredUInt128ValueFromBigInt(new(big.Int).Set(x))
	d, ok := zzStoreRoundTrip(v)
	if !ok {
		return
	}
	u, same := d.(UInt128Value)
	zzAssert("same-kind", same)
	if same {
		zzAssert("same-value", u.BigInt.Cmp(x) == 0)
	}
}

//verif:harness property=C44 mode=bv bigw=144 unwind=80 stubs=metering steps=40000000
func ZZ_C44_Storable_Word128() {
	x := zzNondetBigBits(136)
	zzAssume(x.Sign() >= 0 && x.Cmp(new(big.Int).Lsh(big.NewInt(1), 128)) < 0)
	v := NewUnmeteredWord128ValueFromBigInt(new(big.Int).Set(x))
	d, ok := zzStoreRoundTrip(v)
	if !ok {
		return
	}
	u, same := d.(Word128Value)
	zzAssert("same-kind", same)
	if same {
		zzAssert("same-value", u.BigInt.Cmp(x) == 0)
	}
}

//verif:harness property=C44 mode=bv bigw=272 unwind=80 stubs=metering steps=40000000 tier=thorough
func ZZ_C44_Storable_Int256() {
	x := zzNondetBigBits(264)
	zzAssume(x.Cmp(new(big.Int).Lsh(big.NewInt(1), 255)) < 0 && x.Cmp(new(big.Int).Neg(new(big.Int).Lsh(big.NewInt(1), 255))) >= 0)
	v := NewUnmeteredInt256ValueFromBigInt(new(big.Int).Set(x))
	d, ok := zzStoreRoundTrip(v)
	if !ok {
		return
	}
	u, same := d.(Int256Value)
	zzAssert("same-kind", same)
	if same {
		zzAssert("same-value", u.BigInt.Cmp(x) == 0)
	}
}

//verif:harness property=C44 mode=bv bigw=272 unwind=80 stubs=metering steps=40000000 tier=thorough
func ZZ_C44_Storable_UInt256() {
	x := zzNondetBigBits(264)
	zzAssume(x.Sign() >= 0 && x.Cmp(new(big.Int).Lsh(big.NewInt(1), 256)) < 0)
	v := NewUnmeteredUInt256ValueFromBigInt(new(big.Int).Set(x))
	d, ok := zzStoreRoundTrip(v)
	if !ok {
		return
	}
	u, same := d.(UInt256Value)
	zzAssert("same-kind", same)
	if same {
		zzAssert("same-value", u.BigInt.Cmp(x) == 0)
	}
}

//verif:harness property=C44 mode=bv bigw=272 unwind=80 stubs=metering steps=40000000 tier=thorough
func ZZ_C44_Storable_Word256() {
	x := zzNondetBigBits(264)
	zzAssume(x.Sign() >= 0 && x.Cmp(new(big.Int).Lsh(big.NewInt(1), 256)) < 0)
	v := NewUnmeteredWord256ValueFromBigInt(new(big.Int).Set(x))
	d, ok := zzStoreRoundTrip(v)
	if !ok {
		return
	}
	u, same := d.(Word256Value)
	zzAssert("same-kind", same)
	if same {
		zzAssert("same-value", u.BigInt.Cmp(x) == 0)
	}
}

//verif:harness property=C44 mode=bv unwind=80 steps=40000000
func ZZ_C44_Storable_Bool() {
	v := values.BoolValue(zzNondetBool())
	d, ok := zzStoreRoundTrip(v)
	if !ok {
		return
	}
	u, same := d.(values.BoolValue)
	zzAssert("same-kind", same)
	if same {
		zzAssert("same-value", u == v)
	}
}

//verif:harness property=C44 mode=bv unwind=80 steps=40000000
func ZZ_C44_Storable_Address() {
	v := NewUnmeteredAddressValueFromBytes(zzNondetBytes(8))
	d, ok := zzStoreRoundTrip(v)
	if !ok {
		return
	}
	u, same := d.(AddressValue)
	zzAssert("same-kind", same)
	if same {
		zzAssert("same-value", u == v)
	}
}

//verif:harness property=C44 mode=bv unwind=80 steps=40000000
func ZZ_C44_Storable_Fix128() {
	v := NewUnmeteredFix128Value(fix.NewFix128(zzNondetUint64(), zzNondetUint64()))
	d, ok := zzStoreRoundTrip(v)
	if !ok {
		return
	}
	u, same := d.(Fix128Value)
	zzAssert("same-kind", same)
	if same {
		zzAssert("same-value", u == v)
	}
}

//verif:harness property=C44 mode=bv unwind=80 steps=40000000
func ZZ_C44_Storable_UFix128() {
	v := NewUnmeteredUFix128Value(fix.NewUFix128(zzNondetUint64(), zzNondetUint64()))
	d, ok := zzStoreRoundTrip(v)
	if !ok {
		return
	}
	u, same := d.(UFix128Value)
	zzAssert("same-kind", same)
	if same {
		zzAssert("same-value", u == v)
	}
}

//verif:harness property=C44 mode=bv unwind=80 steps=40000000
func ZZ_C44_Storable_Nil() {
	d, ok := zzStoreRoundTrip(NilValue{})
	if !ok {
		return
	}
	_, same := d.(NilValue)
	zzAssert("same-kind", same)
}

//verif:harness property=C44 mode=bv unwind=80 lens=0..3 thorough_lens=0..4 steps=40000000
func ZZ_C44_Storable_String_LLEN() {
	b := zzNondetBytes(LEN)
	// ASCII only: other text goes through golang.org/x/text's NFC tables (out of reach, cf. C19)
	for _, c := range b {
		zzAssume(c < 0x80)
	}
	v := NewUnmeteredStringValue(string(b))
	d, ok := zzStoreRoundTrip(v)
	if !ok {
		return
	}
	u, same := d.(*StringValue)
	zzAssert("same-kind", same)
	if same {
		zzAssert("same-value", u.Str == string(b))
	}
}

//verif:harness property=C44 mode=bv unwind=80 lens=0..2 thorough_lens=0..3 steps=40000000
func ZZ_C44_Storable_Path_LLEN() {
	b := zzNondetBytes(LEN)
	zzAssume(utf8.Valid(b))
	domains := [3]common.PathDomain{common.PathDomainStorage, common.PathDomainPrivate, common.PathDomainPublic}
	dm := domains[zzChoice(3)]
	v := NewUnmeteredPathValue(dm, string(b))
	d, ok := zzStoreRoundTrip(v)
	if !ok {
		return
	}
	u, same := d.(PathValue)
	zzAssert("same-kind", same)
	if same {
		zzAssert("same-value", u.Domain == dm && u.Identifier == string(b))
	}
}

// every primitive static type number (0..255; Capability is decoded to the capability type)
//
//verif:harness property=C44 mode=bv unwind=80 steps=40000000
func ZZ_C44_StaticType_Primitive() {
	t := PrimitiveStaticType(zzNondetUint8())
	zzAssume(t != PrimitiveStaticTypeCapability)
	d, ok := zzStaticTypeRoundTrip(t)
	if !ok {
		return
	}
	u, same := d.(PrimitiveStaticType)
	zzAssert("same-kind", same)
	if same {
		zzAssert("same-value", u == t)
	}
}

// derived static types over a symbolic primitive element type
//
//verif:harness property=C44 mode=bv unwind=80 steps=40000000
func ZZ_C44_StaticType_Derived() {
	p := PrimitiveStaticType(zzNondetUint8())
	q := PrimitiveStaticType(zzNondetUint8())
	zzAssume(p != PrimitiveStaticTypeCapability && q != PrimitiveStaticTypeCapability)
	size := zzNondetInt64()
	zzAssume(size >= 0)
	var t StaticType
	switch zzChoice(10) {
	case 0:
		t = NewOptionalStaticType(nil, p)
	case 1:
		t = NewVariableSizedStaticType(nil, p)
	case 2:
		t = NewConstantSizedStaticType(nil, p, size)
	case 3:
		t = NewDictionaryStaticType(nil, p, q)
	case 4:
		t = NewReferenceStaticType(nil, UnauthorizedAccess, p)
	case 5:
		t = NewCapabilityStaticType(nil, p)
	case 6:
		t = NewReferenceStaticType(nil, InaccessibleAccess, p)
	case 7:
		// intersection type with a legacy (restricted) type
		it := NewIntersectionStaticType(nil, []*InterfaceStaticType{NewInterfaceStaticTypeComputeTypeID(nil, common.StringLocation("x"), "I")})
		it.LegacyType = p
		t = it
	case 8:
		t = NewIntersectionStaticType(nil, []*InterfaceStaticType{
			NewInterfaceStaticTypeComputeTypeID(nil, common.StringLocation("x"), "I"),
			NewInterfaceStaticTypeComputeTypeID(nil, common.StringLocation("x"), "J"),
		})
	default:
		t = NewOptionalStaticType(nil, NewVariableSizedStaticType(nil, p))
	}
	d, ok := zzStaticTypeRoundTrip(t)
	if !ok {
		return
	}
	zzAssert("equal-type", d.Equal(t) && t.Equal(d))
}

//verif:harness property=C44 mode=bv unwind=80 steps=40000000
func ZZ_C44_Storable_Some() {
	x := zzNondetInt16()
	nested := zzNondetBool()
	var s atree.Storable = SomeStorable{Storable: Int16Value(x)}
	if nested {
		s = SomeStorable{Storable: s}
	}
	d, ok := zzStoreRoundTrip(s)
	if !ok {
		return
	}
	u, same := d.(SomeStorable)
	zzAssert("same-kind", same)
	if !same {
		return
	}
	inner := u.Storable
	if nested {
		u2, same2 := inner.(SomeStorable)
		zzAssert("same-kind", same2)
		if !same2 {
			return
		}
		inner = u2.Storable
	}
	iv, isI := inner.(Int16Value)
	zzAssert("same-value", isI && int16(iv) == x)
}

//verif:harness property=C44 mode=bv unwind=80 steps=40000000
func ZZ_C44_Storable_TypeValue() {
	p := PrimitiveStaticType(zzNondetUint8())
	zzAssume(p != PrimitiveStaticTypeCapability)
	var t StaticType = p
	if zzNondetBool() {
		t = NewOptionalStaticType(nil, p)
	}
	v := NewUnmeteredTypeValue(t)
	d, ok := zzStoreRoundTrip(v)
	if !ok {
		return
	}
	u, same := d.(TypeValue)
	zzAssert("same-kind", same)
	if same {
		zzAssert("same-value", u.Type != nil && u.Type.Equal(t))
	}
}

//verif:harness property=C44 mode=bv unwind=80 steps=40000000
func ZZ_C44_Storable_Capability() {
	id := zzNondetUint64()
	addr := NewUnmeteredAddressValueFromBytes(zzNondetBytes(8))
	p := PrimitiveStaticType(zzNondetUint8())
	zzAssume(p != PrimitiveStaticTypeCapability)
	bt := NewReferenceStaticType(nil, UnauthorizedAccess, p)
	v := NewUnmeteredCapabilityValue(UInt64Value(id), addr, bt)
	d, ok := zzStoreRoundTrip(v)
	if !ok {
		return
	}
	u, same := d.(*IDCapabilityValue)
	zzAssert("same-kind", same)
	if same {
		zzAssert("same-value", uint64(u.ID) == id && u.Address() == addr && u.BorrowType != nil && u.BorrowType.Equal(bt))
	}
}
