#!/bin/sh
# usage: try_mutant.sh <patch.diff> <property-id> [VERIF_ONLY filter]
# applies the patch to /repo, runs the quick check, reverts; prints exit status and VIOLATION lines
patch="$1"; prop="$2"; only="$3"
cd /repo || exit 9
if ! git diff --quiet; then echo "repo dirty"; exit 9; fi
git apply "$patch" || { echo "patch does not apply"; exit 9; }
cd /verif
rm -rf /tmp/evid_backup && cp -r /verif/evidence /tmp/evid_backup
VERIF_ONLY="$only" timeout 3000 ./bin/gosmt check "$prop" > /tmp/mutant_run.log 2>&1
rc=$?
git -C /repo checkout -- .
echo "exit=$rc"
grep -E "^VIOLATION|^BROKEN|OK:|KNOWN-FINDING" /tmp/mutant_run.log | cut -c1-220 | head -8
# restore evidence written by the mutant run
rm -rf /verif/evidence && cp -r /tmp/evid_backup /verif/evidence
exit 0
