#!/bin/sh
# usage: verify_mutant.sh <dir with patch.diff demo_test.go> <name>
# confirms in a scratch worktree: builds; demo fails with patch, passes without; touched packages' tests pass with patch
d="$1"; name="$2"
export GOFLAGS=-mod=mod GOPROXY=off
wt=/tmp/mv_$name
git -C /repo worktree add --detach $wt HEAD >/dev/null 2>&1 || { echo "$name: worktree failed"; exit 1; }
cd $wt
place=$(head -5 $d/demo_test.go | grep -o '[a-z_/0-9]*zz_demo[a-z_0-9]*_test.go' | head -1)
[ -z "$place" ] && place=$(grep -o 'interpreter/[a-z_0-9]*_test.go\|stdlib/[a-z_/0-9]*_test.go\|bbq/[a-z_/0-9]*_test.go\|fixedpoint/[a-z_0-9]*_test.go\|sema/[a-z_0-9]*_test.go\|values/[a-z_0-9]*_test.go\|common/[a-z_/0-9]*_test.go' $d/demo_test.go | head -1)
pkg=$(dirname $place)
cp $d/demo_test.go $wt/$place
clean=$(go test -count=1 ./$pkg/ -run 'ZZDemo|Demo' 2>&1 | tail -1)
git apply $d/patch.diff || { echo "$name: patch does not apply"; }
build=$(go build ./... 2>&1 | tail -1)
mut=$(go test -count=1 ./$pkg/ -run 'ZZDemo|Demo' 2>&1 | tail -1)
rm -f $wt/$place
pkgs=$(git diff --name-only | xargs -n1 dirname | sort -u | sed 's#^#./#; s#$#/...#' | tr '\n' ' ')
suite=$(go test -count=1 $pkgs ./interpreter/... ./sema/... 2>&1 | grep -v "^ok\|no test files" | head -3 | tr '\n' ' ')
echo "$name: place=$place clean=[$clean] build=[$build] mutated=[$mut] suite_failures=[$suite]"
cd /; git -C /repo worktree remove --force $wt
