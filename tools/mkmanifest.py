#!/usr/bin/env python3
"""Regenerates /verif/MANIFEST.json from the tables below (kept in one place so the manifest
always validates and the not_applicable list stays complete)."""
import json, os

ALL = ["C%02d" % i for i in range(1, 53)]

CLAIMED = {
 "C45": dict(
   text="Kernels: (1) location type IDs round-trip: for address locations (arbitrary 8 address bytes), transaction/script locations (three arbitrary ID bytes), string and identifier locations (0..3 arbitrary bytes without '.'), each with a qualified identifier of 0..3 arbitrary bytes, Location.TypeID followed by the kind's decoder returns the same location and the same qualified identifier (address locations: the contract name is its first component), without crashing; hex encoding/decoding and strings.SplitN run from source. (2) checker <-> run-time conversion: for every primitive static type number 0..255 that has a checker type, ConvertSemaToPrimitiveStaticType(p.SemaType()) == p and both representations have the same type ID; for optional, variable- and constant-sized array (symbolic size), dictionary, unauthorized reference, capability and nested optional-array types over every such primitive, ConvertStaticToSemaType followed by ConvertSemaToStaticType yields an equal static type and the type IDs agree. (3) exported representation: for every such primitive and optional / array / dictionary / reference / capability types over it, runtime.ExportType of the checker type has the same type ID as the checker type and as the run-time static type, and runtime.ImportType of the exported type is the static type again.",
   note="Bounds as stated. Capability and the deprecated AuthAccount/PublicAccount primitive numbers (converted to other types by design) are excluded. Locations containing '.', composite/interface/intersection types and entitlement authorizations (need an elaborated program), the checker's InvalidType placeholder (not exportable by design) and the Cadence-level run-time type constructors (OptionalType(...), ...) are outside the claim.",
   design="3 C45"),
 "C42": dict(
   text="CCF, scalar values and small containers: (1) round trip - for every value of each of the 14 fixed-width integer/Word/fixed-point kinds, Fix128/UFix128, Bool, Address (full width), Int/UInt (|x|<2^128), Int128/UInt128/Word128 (256-bit kinds in thorough), String and Path identifier (every valid UTF-8 text <=3 bytes), Optional(UInt8)/nil, arrays of <=2 UInt16, the real ccf.Encode followed by the real ccf.Decode - with fxamacker/cbor's stream encoder/decoder executed from source - succeeds and yields a value of the same kind and content; a dictionary of two entries with distinct symbolic keys encodes to the same bytes in both insertion orders and decodes to exactly those entries; a struct with two fields (type-definition message) round-trips with the same type ID and field values, its deterministic-mode encoding is the same for both declaration orders of the fields and the strict decoder accepts it; a resource, an event and an enum with symbolic field values round-trip with the same type ID and fields; type values over 12 simple types and 7 derived shapes (optional, arrays with a symbolic size, dictionary, reference, capability, nested) decode to an equal type with the same type ID; (2) decoder robustness - ccf.Decode never panics on every byte string <=3 bytes, every 1..2 (thorough 3) bytes after a type-and-value head, 1..2 bytes after a simple-type tag, and 1 (thorough 2) bytes as the value of each of 30 scalar simple types (after a simple-type tag: 2 in both tiers); (3) the canonical-order comparators of deterministic mode on three arbitrary pairwise-distinct keys of 0..3 bytes are strict total orders equal to the reference order and agree with the predicates the strict decoder enforces (which reject duplicates).",
   note="Part of C42: contracts, attachments, nested type definitions, composite/function type values, capabilities, intersection/entitlement-set ordering inside types and inputs longer than the stated lengths are outside. The cbor library's package-level tables are initialised by executing the relevant slice of its init function; sync.Pool buffers are modelled as always reused.",
   design="3 C42"),
 "C18": dict(
   text="Kernel: for the 24 numeric types, Bool, Address, Path (identifier <= 3 bytes) and String values with directly given content (<= 3 bytes): the real Equal equals mathematical equality and Less/LessEqual/Greater/GreaterEqual the mathematical order for every operand pair (so ==, < are an equivalence / total order consistent with each other), and HashInput bytes are identical exactly for equal values (natives: two symbolic values; big integers: the payload decodes back to the value and has the canonical length), including the scratch-buffer vs allocation branch.",
   note="Operands of equal type, full width (Int/UInt hash input: |x| < 2^128). String normalisation (NFC), characters, type values, enums, optionals, containers and the atree dictionary itself are outside the claim.",
   design="3 / 5 C18"),
 "C06": dict(
   text="Entitlement authorization algebra over a universe of 3 entitlements: the real PermitsAccess/Equal, IntersectAccess and EntitlementMapAccess.Image/Domain run on every non-empty conjunction/disjunction set, the unauthorized access and every entitlement map with <= 2 relations (+ identity), against holder semantics: permits iff every holder of the reference authorization satisfies the requirement; intersections never grant more than either side; a mapped authorization promises only what every holder of the input really obtains; errors only for unrepresentable disjunctions.",
   note="Kernel of C06: structure is concrete on every path (the symbolic choices are forked), so the solver's work is constant evaluation of the path assertions; bound: 3 entitlements, <= 2 relations. The checker's member-access path and run-time authorization checks (programs) are outside.",
   design="3 C06"),
 "C32": dict(
   text="Int (values.IntValue) and UInt + - * / % unary minus with operands up to 8 words, | ^ & << >> of Int, UInt, Int128, UInt128, Word128 (256-bit types in thorough) with operands up to 2 words and shifts < 256, the two shift estimators alone for shifts < 2^20 against the exact length formula, and the + - * / % estimators alone for symbolic operand lengths up to 65536 words (divisors < 100 words) against the mathematical result-length bounds: the real operation runs with a harness gauge that sums the BigInt memory it meters (real estimators, real wiring); solver shows metered bytes >= 8 * word length of the result for every operand pair in the bound, word lengths handled symbolically without case split.",
   note="Bounds: 8-word operands (int-mode), 2-word operands and shifts < 256 (bv-mode, big.Int model width 448). Estimator-alone harnesses see only operand lengths (arbitrary values of that length). The recursive-division branch of the / % estimator (divisors >= 100 words: product of two symbolic lengths, solvers return unknown) is outside. Metering order (before vs after computing) is not observable by the harness.",
   design="3 C32"),
 "C21": dict(
   text="InclusiveRange for all 20 integer/Word element types: the real NewInclusiveRangeValueWithStep (construction fails exactly for step 0 / moving away from end), NewInclusiveRangeIterator + Next (first 3 (thorough 5) elements from construction, and one step from an arbitrary member position: a one-step induction over the position) and InclusiveRangeContains, against the exact arithmetic sequence in unbounded integers, for every start/end/step/needle of the type.",
   note="Three genuine defects are recorded as known findings (iterator steps past the type bound; contains() overflows on needle-start; contains(end) true for an unreachable end) and suppressed only inside their input regions. The atree-backed composite is replaced by a three-field object symbolically (natively the real composite is used); implicit-step constructor outside.",
   design="3 C21"),
 "C14": dict(
   text="For all 20 integer/Word types: & | ^ checked bit by bit against the two's-complement representation, << against x*2^n truncated to the width, >> against floor(x/2^n), for every operand and every shift amount of the operand type (negative amounts must fail); the 128/256-bit toTwosComplement/Lsh/truncate/fromTwosComplement pipeline is executed for real over a bit-vector model of math/big.",
   note="Full width for sized types (big.Int model width 272/528 bits, a checked bound). Int/UInt: |value| < 2^128 and shift < 128, or shift beyond uint64 (overflow error allowed); shifts in [128,2^64) of unbounded ints are outside. values.SignedBigIntToSizedBigEndianBytes / BigEndianBytesToSignedBigInt are replaced by exact summaries that C17 verifies against the real bodies.",
   design="3 C14"),
 "C15": dict(
   text="Fix64, UFix64, Fix128, UFix128 + - * / % , unary minus and multiplyDivide (every rounding rule): for Fix64/UFix64 solver shows for every pair of raw 64-bit operands that the result is the exact rational result truncated toward zero at scale 8 or the failure is the right overflow/underflow/division-by-zero error; % is a - trunc(a/b)*b and fails only when the quotient is unrepresentable (two arithmetic lemmas are discharged separately and used as cuts); for Fix128/UFix128 cadence's wrappers (choice of library call and rounding mode, error remapping) run for real against a contract stub of github.com/onflow/fixed-point.",
   note="Full width. Trusted for Fix128/UFix128: the external library honours its documented contract for FMD/Mul/Div/Mod (exact result rounded by the mode; overflow/negative-overflow/underflow/division-by-zero errors), which fixlib.go encodes; its Add/Sub/Neg run from source. Fix64/UFix64 multiplyDivide (64-bit library FMD) is outside.",
   design="3 C15"),
 "C16": dict(
   text="All 576 ordered pairs among the 20 integer/Word types, Fix64/UFix64 and Fix128/UFix128: the real Convert<T> is executed symbolically on an arbitrary source value; solver shows the result has the same mathematical value (fixed-point to integer truncates toward zero, Word targets reduce mod 2^n) or the conversion fails with an overflow/underflow error exactly when the value is not representable.",
   note="Full source width (Int/UInt unbounded; Fix128/UFix128 as arbitrary 128-bit word pairs). The WithRounding variants are outside (external library). Either error kind is accepted for out-of-range values.",
   design="3 C16"),
 "C17": dict(
   text="Byte and string encodings: fromString of all 20 integer/Word types through the real parser table on every string of 0..3 bytes against the reference grammar (digits; sign only for signed types) incl. the parsed value; and for every integer, Word and fixed-point type (incl. Fix128/UFix128), fromBigEndianBytes(toBigEndianBytes(x)) == x for every x, the encoding is never longer than the type's size, and the converters never crash and stay in range on every byte array of every allowed length; plus the real bodies of the two byte/sign helpers that other checks summarise.",
   note="Int/UInt bytes bounded by |x| < 2^128; fromString strings <= 3 bytes (strconv from source, big.Int.SetString by its documented grammar). toString (strconv.Format, big.Int.Text, fmt), fixed-point fromString and Address/Path string forms are outside the claim; the array-value layer and the wrapper's length gate are outside.",
   design="3 C17"),
 "C40": dict(
   text="Literal range checks: the real sema.CheckIntegerLiteral for all 20 sized/Word types + Int/UInt on an arbitrary integer value, and sema.CheckFixedPointLiteral / fixedpoint.New{Fix64,UFix64,Fix128,UFix128} on arbitrary (sign, integer part, fractional part, parsed scale): accepted exactly when the scale fits and the exact decimal value is in the type's range, and the converted value equals value*10^scale; plus the real parser.parseIntegerLiteral on every token text of 0..3 (thorough 4) bytes over the digit alphabet plus underscore in bases 2/8/10/16: the resulting value is the mathematical value of the digits, the base is recorded, and an error is reported exactly for leading/trailing underscores or no digits; and parser.parseFixedPointLiteral on every '<int>.<frac>' text with <=3 (4) digit/underscore bytes around the point: integer and fractional part have the mathematical value of their digits and the scale is the number of fractional digits.",
   note="Unbounded integer/fraction values; parsed scale 0..scale+2; integer literal text <= 3 (4) bytes (big.Int.SetString by its documented grammar). The lexer itself (see C37) and string/character escapes are outside. Type ranges in the checker come from the real sema type objects (snapshot of the real build).",
   design="3 C40"),
 "C47": dict(
   text="revertibleRandom for the 8 native unsigned types and UInt128 (quick; plus Word128 in thorough) with a fully symbolic modulus and a generator stub returning arbitrary bytes: result < modulus, each candidate is exactly the fresh bytes reduced mod 2^bitlen(m-1), the minimal number of bytes is drawn, a candidate is accepted iff <= m-1, zero modulus fails, and without modulus all bits of the type come from one draw.",
   note="At most 2 draws per call are explored; later iterations start from the same kind of state. Exact uniformity follows on paper from the checked facts (stated in evidence). UInt256/Word256 (bit-vector queries of width 288 did not finish in 2 h on this machine) and termination with probability 1 are outside.",
   design="3 C47"),
 "C11": dict(
   text="For each of the 14 sized integer types plus Int/UInt and each of + - * / % and unary minus, the real interpreter method is executed symbolically (machine ints as mathematical integers with Go's wrap/truncation spelled out; big.Int by an exact model) and an SMT solver shows, for every operand pair of the full width, that the result equals the exact integer result or the failure is the right overflow/underflow/division-by-zero error.",
   note="Full operand width, no bound on values (Int/UInt unbounded). Assumes operands satisfy the representation invariant and have equal types; gauge nil, big-int metering estimators stubbed (C32). Trusted: go/ssa, the executor and its math/big model (validated per path against the native build), solvers.",
   design="3 C11"),
 "C12": dict(
   text="Word8..Word256 + - * / %: solver shows for every operand pair that the real method never fails (except division by zero) and returns the exact result modulo 2^n.",
   note="Full width. Same assumptions and trusted base as C11.", design="3 C12"),
 "C13": dict(
   text="Every saturating function the language declares for integer types (Int8..Int256 all four, UInt8..UInt256 add/subtract/multiply, UInt subtract) and for Fix64/Fix128 (all four) and UFix64/UFix128 (add/subtract/multiply): solver shows for every operand pair that the real method returns clamp(exact result) and fails only for division by zero.",
   note="Full width. The declared set is taken from the language reference (a table in the generator). Fix128/UFix128: the arithmetic of the external fixed-point library is replaced by its documented contract (see C15).", design="3 C13"),
 "C35": dict(
   text="LEB128: for every uint32/uint64/int32/int64 the real Append* followed by Read* (with arbitrary trailing bytes) returns the same integer and the encoded length, the encoding has the canonical length, and the decoders never crash or over-read on any buffer of <= 11 bytes; AppendUint32FixedLength for every length 0..5.",
   note="Part of C35 only: LEB128 (full integer width; decoder buffers <= 11 bytes) and the instruction codec: for every instruction type found in bbq/opcode by go/types, Encode then DecodeInstruction returns the same instruction with the same operands and consumes exactly the encoding (operand arrays of length 0..2, thorough 3), plus PatchJumpBytecode. Compilation determinism is outside the claim (compiler over program ASTs is not encodable).", design="3 C35"),
 "C51": dict(
   text="Internal ordered collections against list models: the real common/orderedmap (Set/Delete/Get/Clear/Contains/Len, Oldest..Newest iteration order, ForAnyKey/ForAllKeys/KeySetIsDisjointFrom, from the zero value and from New()), common/persistent OrderedSet chains (Add/Contains/IsEmpty/ForEach order over up to 3 cloned levels) and common/bimap (Insert/Delete/DeleteInverse/Get/GetInverse stay a bijection) for every sequence of <=3 operations (ordered map and set: 4 in thorough) with symbolic keys and values; no operation crashes.",
   note="Sequences of <=3 (4) operations; Go's builtin map is modelled as an association list with symbolic key equality. The interval tree (draws from global math/rand, no native replay), 'few thousand operations' and key types other than integers are outside.",
   design="3 C51"),
 "C37": dict(
   text="Lexer kernel: the real lexer.Lex and the whole token stream (Next() to EOF) on every byte string - all byte values incl. invalid UTF-8 - of <=2 bytes alone (3 free bytes = 93 000 paths did not finish in 2 h), and after fixed prefixes that put the lexer into its modes with <=2 free bytes (string template, after a leading 0; thorough also after a fraction point and an arrow), <=3 free bytes (string, line comment) or <=4 free bytes (block comment), plus every 3..5 (6) bytes >= 0x80 alone / in a line comment / string / block comment: no crash and no internal error, every token and the EOF position inside the input, tokens contiguous in order and covering the input (unless lexing stopped at an error token), lines match offsets, columns match offsets in one convention (bytes or characters) for the whole stream; and a pooled lexer that lexed another text before (6 texts leaving mode, bracket count, position, cursor and tokens behind) yields, for an optional template opener plus 2 free bytes (quick: from 12 mode-sensitive characters; thorough: any byte), exactly the tokens of a fresh lexer.",
   note="Part of C37: the lexer only; parser and checker totality/positions are outside (a symbolic token stream/AST is out of reach). sync.Pool modelled as 'Get returns the last Put object, else New()'; unicode/utf8.DecodeRune runs from source. Two known findings (unterminated block comment content in no token; column drift after an empty string token), three defects fixed. A token limit that only triggers after > 500 000 tokens (seeded change C37-token-limit-checks-capacity) is beyond every bound.",
   design="3 C37"),
 "C44": dict(
   text="Storage codec kernel: for every scalar storable value - the 14 fixed-width integer/Word/fixed-point kinds, Fix128/UFix128, Bool, Address, Nil (full width), Int/UInt (|x|<2^128), Int128/UInt128/Word128 (256-bit kinds in thorough), ASCII strings <=3 bytes, paths with identifiers <=2 bytes, Some / Some(Some) of an Int16, type values over primitive and optional static types, ID capabilities (symbolic id, address, borrow type) - the real Storable.Encode (through atree.Encoder and fxamacker/cbor's stream encoder executed from source) followed by the real interpreter.DecodeStorable yields a storable of the same kind and content, and re-encoding the decoded storable gives identical bytes; every primitive static type number and optional / variable- and constant-sized array / dictionary / reference / capability static types over symbolic primitive element types round-trip through StaticTypeToBytes / StaticTypeFromBytes to an equal type with identical re-encoding.",
   note="Part of C44: containers and composites (atree slabs), published values and capability controllers, composite, interface and intersection static types, entitlement authorizations, non-ASCII strings (x/text NFC tables) and cross-version stability (needs a stored corpus of old encodings) are outside.",
   design="3 C44"),
 "C46": dict(
   text="Bounded symbolic model checking of the real rlp.ReadSize/DecodeString/DecodeList SSA: for every input of the stated lengths (all byte values, incl. 8-byte length prefixes up to 2^64-1) an SMT solver shows no run-time panic is reachable and acceptance/result equal an independent reference decoder; every feasible path is also replayed natively.",
   note="Bounds: input length <= 10 (quick) / 14 (thorough) for strings and headers, <= 4 / 5 for unconstrained lists plus lists with a long-form first item up to 10 / 12 bytes. Trusted: go/ssa, my SSA->SMT executor (validated per path against the native build), z3/cvc5. The Cadence wrappers RLPDecodeString/RLPDecodeList are checked too (accept iff the library accepts and consumed all bytes, user error otherwise, same payload/items) with byte arrays as plain element lists symbolically and real atree-backed arrays natively, inputs <= 6/4 bytes.",
   design="3 C46"),
}

NA_REASON = {
 "C01": "whole-program soundness of checker + two engines: input is a Cadence program; parser+checker+interpreter cannot be encoded symbolically within reach",
 "C02": "resource conservation is a global invariant over executions through atree storage; not encodable",
 "C03": "not built yet (stretch kernel: checker branch-join merge)",
 "C04": "reference invalidation over program runs in two engines; not encodable",
 "C05": "copy semantics run through atree slab copying; heap-backed containers out of reach",
 "C07": "view purity quantifies over all accepted programs and run-time effects",
 "C08": "subtyping over type graphs built from init-time pointer structures; symbolic execution degenerates to enumeration",
 "C09": "casts vs isInstance over values x types in both engines",
 "C10": "condition enforcement over program ASTs / desugaring",
 "C19": "NFC normalisation / grapheme segmentation are Unicode-table state machines in external libraries; no encodable oracle",
 "C20": "atree B+-tree containers, slab thresholds, storage reloads",
 "C22": "transaction histories over runtime + ledger", "C23": "transaction histories over runtime + ledger (slab health)",
 "C24": "transaction histories over runtime + ledger (write deferral)", "C25": "capability controller histories over the runtime",
 "C26": "contract lifecycle histories over the runtime", "C27": "contract update validation over program pairs and stored data",
 "C28": "fault injection over whole executions; the wrapper layer alone has nothing quantified for a solver",
 "C29": "argument import over JSON/CCF decoders and value graphs",
 "C30": "termination/metering of arbitrary programs", "C31": "metering determinism across histories and processes",
 "C33": "outcome determinism across processes and map seeds",
 "C34": "VM vs interpreter equivalence on whole programs",
 "C36": "schedules / data races; the encoder is sequential",
 "C38": "printer round trip AST -> Doc -> text -> parser", "C39": "formatter round trip over ASTs",
 "C41": "JSON codec uses encoding/json and reflection over value graphs",
 "C43": "JSON vs CCF agreement over value graphs",
 "C48": "program-level (events)", "C49": "program-level (attachments)", "C50": "program-level (access modifiers)",
 "C52": "program-level (evaluation order)",
}

def main():
    checks = []
    for pid in sorted(CLAIMED):
        c = CLAIMED[pid]
        checks.append({
            "property_id": pid,
            "quick_cmd": "/verif/bin/gosmt check %s --tier quick" % pid,
            "thorough_cmd": "/verif/bin/gosmt check %s --tier thorough" % pid,
            "evidence_file": "/verif/evidence/%s.json" % pid,
            "replay_cmd_template": "/verif/bin/gosmt replay {path}",
            "engine": "gosmt",
            "level_claimed": {"category": "model_checking", "text": c["text"], "design_ref": "DESIGN.md section " + c["design"]},
            "level_note": c["note"],
            "technique": "bounded symbolic execution of go/ssa -> SMT-LIB2 (z3 4.8.12 / z3 5.1.0 / cvc5 portfolio), counterexamples replayed natively",
        })
    m = {
        "version": 1,
        "setup_cmd": "cd /verif/engine && GOFLAGS=-mod=mod GOPROXY=off go build -o /verif/bin/gosmt .",
        "hooks": {
            "guard": "verif",
            "enable": "no source hooks: harnesses are overlaid at build time (go build/test -overlay, packages.Config.Overlay); /repo is never modified by a check",
            "baseline_off_cmd": "cd /repo && GOFLAGS=-mod=mod GOPROXY=off go test -json -vet=off -count=1 -timeout 25m ./...",
            "source_commits": [],
            "add_only": True,
        },
        "engines": [{"name": "gosmt", "path": "/verif/engine", "serves_properties": sorted(CLAIMED),
                     "kind_free_text": "own bounded symbolic executor for Go SSA (golang.org/x/tools/go/ssa) emitting SMT-LIB2, with native replay through go test -overlay"}],
        "checks": checks,
        "not_applicable": [{"property_id": p, "reason": NA_REASON[p]} for p in ALL if p not in CLAIMED],
        "notes": "fix: commits in /repo are listed in /verif/known_findings.json (status fixed).",
    }
    for p in ALL:
        assert p in CLAIMED or p in NA_REASON, p
    json.dump(m, open("/verif/MANIFEST.json", "w"), indent=1)
    print("claimed", len(CLAIMED), "na", len(m["not_applicable"]))

main()
