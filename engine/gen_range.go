package main

import (
	"fmt"
	"strings"
)

const c21Header = `//verif:pkg interpreter
//verif:dump sema
//verif:dump common
//verif:dump values
//verif:assume the range composite is replaced by a three-field object (createInclusiveRange / getFieldAsIntegerValue stubbed; natively the real atree-backed composite is used); the small-integer cache (sync.Map) always misses
//verif:assume ranges are built with NewInclusiveRangeValueWithStep (explicit step); the implicit-step constructor needs the sema type of the context and is outside
//verif:assume iteration: the first KSTEPS elements from construction plus one step from an arbitrary iterator position (one-step induction over the position)
package PKGNAME

import (
	"math/big"

	"github.com/onflow/cadence/sema"
	"github.com/onflow/cadence/values"
)

var _ = values.IntValue{}
var _ = big.NewInt

var zzInterp *Interpreter

func zzInterpreter() *Interpreter {
	if zzInterp == nil {
		inter, err := NewInterpreter(nil, nil, &Config{Storage: NewInMemoryStorage(nil, nil)})
		if err != nil {
			panic(err)
		}
		zzInterp = inter
	}
	return zzInterp
}

func zzNativeMemberCtx() MemberAccessibleContext   { return zzInterpreter() }
func zzNativeCmpCtx() ValueComparisonContext        { return zzInterpreter() }
func zzNativeIterCtx() InclusiveRangeIteratorContext { return zzInterpreter() }
func zzNativeNextCtx() ValueIteratorContext          { return zzInterpreter() }

var _ = sema.Int8Type
`

func genC21(tier string) (map[string]string, error) {
	ksteps := 3
	if tier == "thorough" {
		ksteps = 5
	}
	var sb strings.Builder
	sb.WriteString(strings.ReplaceAll(c21Header, "KSTEPS", fmt.Sprint(ksteps)))
	all := append(append([]numType(nil), intTypes...), wordTypes...)
	for _, t := range all {
		prim := "PrimitiveStaticType" + t.Name
		semaT := "sema." + t.Name + "Type"
		attrs := "property=C21 mode=int stubs=metering,range unwind=40"
		rangeSetup := func() string {
			var p strings.Builder
			p.WriteString(t.operand("s", "S"))
			p.WriteString(t.operand("e", "E"))
			p.WriteString(t.operand("st", "ST"))
			fmt.Fprintf(&p, "\trt := InclusiveRangeStaticType{ElementType: %s}\n\tsm := &sema.InclusiveRangeType{MemberType: %s}\n", prim, semaT)
			p.WriteString("\tcons := zzCatch(func() any { return NewInclusiveRangeValueWithStep(zzNativeMemberCtx(), s, e, st, rt, sm) })\n")
			p.WriteString("\tinvalid := zzOr(ST.Sign() == 0, zzOr(zzAnd(S.Cmp(E) < 0, ST.Sign() < 0), zzAnd(S.Cmp(E) > 0, ST.Sign() > 0)))\n")
			p.WriteString("\tif invalid {\n\t\tzzAssert(\"invalid-range-rejected\", cons.PanicIs(\"*interpreter.InclusiveRangeConstructionError\"))\n\t\treturn\n\t}\n")
			p.WriteString("\tzzAssert(\"valid-range-constructed\", !cons.Panicked)\n\tif cons.Panicked {\n\t\treturn\n\t}\n\tr := cons.Value.(*CompositeValue)\n")
			return p.String()
		}
		// membership of value X (big) in the sequence
		member := func(x string) string {
			return fmt.Sprintf("zzAnd(new(big.Int).Rem(new(big.Int).Sub(%s, S), ST).Sign() == 0, zzOr(zzAnd(ST.Sign() > 0, zzAnd(%s.Cmp(S) >= 0, %s.Cmp(E) <= 0)), zzAnd(ST.Sign() < 0, zzAnd(%s.Cmp(S) <= 0, %s.Cmp(E) >= 0))))", x, x, x, x, x)
		}
		// 1. iteration from construction
		fmt.Fprintf(&sb, "\n//verif:harness %s\nfunc ZZ_C21_%s_Iterate() {\n", attrs, t.Name)
		sb.WriteString(rangeSetup())
		sb.WriteString("\tit := NewInclusiveRangeIterator(zzNativeIterCtx(), r, rt)\n")
		fmt.Fprintf(&sb, "\tfor k := 0; k < %d; k++ {\n", ksteps)
		sb.WriteString("\t\texp := new(big.Int).Add(S, new(big.Int).Mul(big.NewInt(int64(k)), ST))\n")
		fmt.Fprintf(&sb, "\t\tisMember := %s\n", member("exp"))
		sb.WriteString("\t\tout := zzCatch(func() any { return it.Next(zzNativeNextCtx()) })\n")
		sb.WriteString("\t\tnxt := new(big.Int).Add(exp, ST)\n\t\t_ = nxt\n")
		fmt.Fprintf(&sb, "\t\tzzKnownFinding(\"C21-iterator-steps-past-type-bound\", zzAnd(isMember, %s))\n", outOfType(t, "nxt"))
		sb.WriteString("\t\tzzAssert(\"iteration-never-fails\", !out.Panicked)\n\t\tif out.Panicked {\n\t\t\treturn\n\t\t}\n")
		sb.WriteString("\t\tif !isMember {\n\t\t\tzzAssert(\"terminates-after-last-member\", out.Value == nil)\n\t\t\treturn\n\t\t}\n")
		sb.WriteString("\t\tzzAssert(\"yields-a-value\", out.Value != nil)\n\t\tif out.Value == nil {\n\t\t\treturn\n\t\t}\n")
		fmt.Fprintf(&sb, "\t\tzzAssert(\"yields-the-sequence\", %s.Cmp(exp) == 0)\n\t}\n}\n", t.resultBig("out.Value"))

		// 2. one step from an arbitrary position
		fmt.Fprintf(&sb, "\n//verif:harness %s\nfunc ZZ_C21_%s_IterateStep() {\n", attrs, t.Name)
		sb.WriteString(rangeSetup())
		sb.WriteString("\t_ = r\n")
		sb.WriteString(t.operand("cur", "C"))
		fmt.Fprintf(&sb, "\tzzAssume(%s)\n", member("C"))
		sb.WriteString("\tit := &InclusiveRangeIterator{rangeValue: r, next: cur, stepNegative: ST.Sign() < 0, step: st, end: e}\n")
		sb.WriteString("\tnxt := new(big.Int).Add(C, ST)\n\t_ = nxt\n")
		fmt.Fprintf(&sb, "\tzzKnownFinding(\"C21-iterator-steps-past-type-bound\", %s)\n", outOfType(t, "nxt"))
		sb.WriteString("\tout := zzCatch(func() any { return it.Next(zzNativeNextCtx()) })\n")
		sb.WriteString("\tzzAssert(\"iteration-never-fails\", !out.Panicked)\n\tif out.Panicked {\n\t\treturn\n\t}\n")
		fmt.Fprintf(&sb, "\tzzAssert(\"returns-current\", zzAnd(out.Value != nil, %s.Cmp(C) == 0))\n", strings.Replace(t.resultBig("out.Value"), "out.Value.(", "zzOrZero"+t.Name+"(out.Value).(", 1))
		fmt.Fprintf(&sb, "\tnextIsMember := %s\n", member("nxt"))
		sb.WriteString("\tif !nextIsMember {\n\t\tzzAssert(\"position-exhausted\", it.next == nil)\n\t\treturn\n\t}\n")
		sb.WriteString("\tzzAssert(\"position-advanced\", it.next != nil)\n\tif it.next != nil {\n")
		fmt.Fprintf(&sb, "\t\tzzAssert(\"position-is-next-member\", %s.Cmp(nxt) == 0)\n\t}\n}\n", t.resultBig("Value(it.next)"))
		// helper: avoid nil type assertion panics in the harness itself
		fmt.Fprintf(&sb, "\nfunc zzOrZero%s(v any) any {\n\tif v == nil {\n\t\tvar z %sValue\n\t\t_ = z\n\t\treturn %s\n\t}\n\treturn v\n}\n", t.Name, t.Name, zeroValueExpr(t))

		// 3. contains
		fmt.Fprintf(&sb, "\n//verif:harness %s\nfunc ZZ_C21_%s_Contains() {\n", attrs, t.Name)
		sb.WriteString(rangeSetup())
		sb.WriteString(t.operand("x", "X"))
		sb.WriteString("\tout := zzCatch(func() any { return InclusiveRangeContains(r, rt, zzNativeCmpCtx(), x) })\n")
		fmt.Fprintf(&sb, "\tisMember := %s\n", member("X"))
		fmt.Fprintf(&sb, "\tzzKnownFinding(\"C21-contains-difference-overflows\", %s)\n", outOfType(t, "new(big.Int).Sub(X, S)"))
		sb.WriteString("\tzzKnownFinding(\"C21-contains-unreachable-end\", zzAnd(X.Cmp(E) == 0, !isMember))\n")
		sb.WriteString("\tzzAssert(\"contains-never-fails\", !out.Panicked)\n\tif out.Panicked {\n\t\treturn\n\t}\n")
		sb.WriteString("\tzzAssert(\"contains-iff-member\", bool(out.Value.(BoolValue)) == isMember)\n}\n")
	}
	return map[string]string{"range": sb.String()}, nil
}

func outOfType(t numType, x string) string {
	c := "false"
	if mn := t.specMin(); mn != "" {
		c = fmt.Sprintf("%s.Cmp(%s) < 0", x, mn)
	}
	if mx := t.specMax(); mx != "" {
		c = fmt.Sprintf("zzOr(%s, %s.Cmp(%s) > 0)", c, x, mx)
	}
	return c
}

func zeroValueExpr(t numType) string {
	if t.Native != "" {
		return "z"
	}
	if t.Name == "Int" {
		return "IntValue{values.IntValue{BigInt: new(big.Int)}}"
	}
	return fmt.Sprintf("%sValue{BigInt: new(big.Int)}", t.Name)
}

func init() {
	generators["C21"] = append(generators["C21"], genC21)
}
