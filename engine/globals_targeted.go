package main

// Targeted initialisation of a package-level variable that the snapshot cannot carry (maps of
// closures, e.g. interpreter.StringValueParsers): `var G = func() T { ... }()` is initialised in
// the package's init by a call of a function literal without arguments; that call alone is
// executed symbolically (on concrete data) on the base state.

import (
	"strings"

	"golang.org/x/tools/go/ssa"
)

func findGlobalInitializerCall(g *ssa.Global) *ssa.Function {
	initFn := g.Pkg.Func("init")
	if initFn == nil {
		return nil
	}
	for _, b := range initFn.Blocks {
		for _, in := range b.Instrs {
			st, ok := in.(*ssa.Store)
			if !ok || st.Addr != ssa.Value(g) {
				continue
			}
			call, ok := st.Val.(*ssa.Call)
			if !ok || len(call.Call.Args) != 0 || call.Call.IsInvoke() {
				return nil
			}
			switch f := call.Call.Value.(type) {
			case *ssa.Function:
				return f
			case *ssa.MakeClosure:
				if len(f.Bindings) == 0 {
					return f.Fn.(*ssa.Function)
				}
			}
			return nil
		}
	}
	return nil
}

// RunGlobalInit executes the initialiser of the global named key ("pkgpath.Name") on the base state.
func (ex *Exec) RunGlobalInit(key string) string {
	if ex.globalInitTried == nil {
		ex.globalInitTried = map[string]bool{}
	}
	ex.globalInitTried[key] = true
	i := strings.LastIndex(key, ".")
	pkgPath, name := key[:i], key[i+1:]
	for _, p := range ex.Prog.AllPackages() {
		if p.Pkg.Path() != pkgPath {
			continue
		}
		g, ok := p.Members[name].(*ssa.Global)
		if !ok {
			return "global not found"
		}
		fn := findGlobalInitializerCall(g)
		if fn == nil {
			return "no initialiser call"
		}
		saved := ex.Pinned
		ex.Pinned = nil
		outs := ex.CallFn(ex.Base, fn, nil, nil, 1)
		ex.Pinned = saved
		if len(outs) != 1 || outs[0].Kind != ORet || len(outs[0].Vals) != 1 {
			msg := "initialiser forked or failed"
			if len(outs) >= 1 && outs[0].Kind == OAbort {
				msg = outs[0].Abort
			}
			return msg
		}
		ex.Base = outs[0].St
		ex.Base.Heap[ex.globalObjID(g)] = outs[0].Vals[0]
		return ""
	}
	return "package not found"
}

func snapIsOpaque(snap interface{}) bool {
	m, ok := snap.(map[string]interface{})
	if !ok {
		return true
	}
	k, _ := m["k"].(string)
	return k == "opaque"
}
