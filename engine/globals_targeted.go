package main

// Targeted initialisation of a package-level variable that the snapshot cannot carry (maps of
// closures, e.g. interpreter.StringValueParsers): `var G = func() T { ... }()` is initialised in
// the package's init by a call of a function literal without arguments; that call alone is
// executed symbolically (on concrete data) on the base state.

import (
	"go/types"
	"strconv"
	"strings"

	"golang.org/x/tools/go/ssa"
)

func findGlobalInitializerCall(g *ssa.Global) *ssa.Function {
	initFn := g.Pkg.Func("init")
	if initFn == nil {
		return nil
	}
	for _, b := range initFn.Blocks {
		for _, in := range b.Instrs {
			st, ok := in.(*ssa.Store)
			if !ok || st.Addr != ssa.Value(g) {
				continue
			}
			call, ok := st.Val.(*ssa.Call)
			if !ok || len(call.Call.Args) != 0 || call.Call.IsInvoke() {
				return nil
			}
			switch f := call.Call.Value.(type) {
			case *ssa.Function:
				return f
			case *ssa.MakeClosure:
				if len(f.Bindings) == 0 {
					return f.Fn.(*ssa.Function)
				}
			}
			return nil
		}
	}
	return nil
}

// RunGlobalInit executes the initialiser of the global named key ("pkgpath.Name") on the base state.
func (ex *Exec) RunGlobalInit(key string) string {
	if ex.globalInitTried == nil {
		ex.globalInitTried = map[string]bool{}
	}
	ex.globalInitTried[key] = true
	i := strings.LastIndex(key, ".")
	pkgPath, name := key[:i], key[i+1:]
	for _, p := range ex.Prog.AllPackages() {
		if p.Pkg.Path() != pkgPath {
			continue
		}
		g, ok := p.Members[name].(*ssa.Global)
		if !ok {
			return "global not found"
		}
		fn := findGlobalInitializerCall(g)
		if fn == nil {
			if sl := findGlobalInitSlice(g); sl != nil {
				msg := ex.runInitSlice(g, sl)
				if msg == "" {
					msg = ex.runInitFuncs(initFuncsTouching(g))
				}
				if msg != "" && !strings.HasPrefix(msg, "NEEDINIT: ") {
					if ex.globalInitFailed == nil {
						ex.globalInitFailed = map[string]bool{}
					}
					ex.globalInitFailed[key] = true
				}
				return msg
			}
			return "no initialiser call"
		}
		saved := ex.Pinned
		ex.Pinned = nil
		outs := ex.CallFn(ex.Base, fn, nil, nil, 1)
		ex.Pinned = saved
		if len(outs) != 1 || outs[0].Kind != ORet || len(outs[0].Vals) != 1 {
			msg := "initialiser forked or failed"
			if len(outs) >= 1 && outs[0].Kind == OAbort {
				msg = outs[0].Abort
			}
			return msg
		}
		ex.Base = outs[0].St
		ex.Base.Heap[ex.globalObjID(g)] = outs[0].Vals[0]
		return ""
	}
	return "package not found"
}

func snapIsOpaque(snap interface{}) bool {
	m, ok := snap.(map[string]interface{})
	if !ok {
		return true
	}
	k, _ := m["k"].(string)
	return k == "opaque"
}

// ---- slice-based initialisation
//
// For a global whose initialiser is not a single call (composite literals, `[]byte{0xf5}`,
// `big.NewInt(1)`, struct literals with func fields, ...) the instructions of the package's init
// that the stored value depends on are executed alone, in program order: the backward slice of the
// stores into the global, plus the stores into every allocation that is part of the slice.

func rootOfAddr(v ssa.Value) ssa.Value {
	for {
		switch a := v.(type) {
		case *ssa.FieldAddr:
			v = a.X
		case *ssa.IndexAddr:
			v = a.X
		default:
			return v
		}
	}
}

func findGlobalInitSlice(g *ssa.Global) []ssa.Instruction {
	initFn := g.Pkg.Func("init")
	if initFn == nil {
		return nil
	}
	var all []ssa.Instruction
	for _, b := range initFn.Blocks {
		all = append(all, b.Instrs...)
	}
	needed := map[ssa.Instruction]bool{}
	var addValue func(v ssa.Value) bool
	var addInstr func(in ssa.Instruction) bool
	addInstr = func(in ssa.Instruction) bool {
		if needed[in] {
			return true
		}
		switch in.(type) {
		case *ssa.Phi, *ssa.If, *ssa.Jump, *ssa.Return, *ssa.Panic, *ssa.Defer, *ssa.Go, *ssa.Select, *ssa.Range, *ssa.Next:
			return false
		}
		needed[in] = true
		for _, op := range in.Operands(nil) {
			if *op != nil && !addValue(*op) {
				return false
			}
		}
		return true
	}
	addValue = func(v ssa.Value) bool {
		in, ok := v.(ssa.Instruction)
		if !ok || in.Parent() != initFn {
			return true // constants, globals, functions
		}
		return addInstr(in)
	}
	found := false
	for _, in := range all {
		if s, ok := in.(*ssa.Store); ok && rootOfAddr(s.Addr) == ssa.Value(g) {
			found = true
			if !addInstr(s) {
				return nil
			}
		}
	}
	if !found {
		return nil
	}
	// stores / map updates into objects that are part of the slice (to a fixpoint)
	for changed := true; changed; {
		changed = false
		for _, in := range all {
			if needed[in] {
				continue
			}
			var target ssa.Value
			switch s := in.(type) {
			case *ssa.Store:
				target = rootOfAddr(s.Addr)
			case *ssa.MapUpdate:
				target = s.Map
			default:
				continue
			}
			ti, ok := target.(ssa.Instruction)
			if !ok || !needed[ti] {
				continue
			}
			if !addInstr(in) {
				return nil
			}
			changed = true
		}
	}
	var res []ssa.Instruction
	for _, in := range all {
		if needed[in] {
			res = append(res, in)
		}
	}
	if len(res) > 4000 {
		return nil
	}
	return res
}

// runInitSlice executes the slice on the base state.
func (ex *Exec) runInitSlice(g *ssa.Global, slice []ssa.Instruction) string {
	initFn := g.Pkg.Func("init")
	st := ex.Base
	// the global's object must exist to be stored into
	gt := g.Type().Underlying().(*types.Pointer).Elem()
	st.Heap[ex.globalObjID(g)] = ex.zeroSafe(gt)
	fr := &Frame{Fn: initFn, St: st, Env: map[ssa.Value]Value{}, SymIter: map[ssa.Instruction]int{}, Depth: 1}
	saved := ex.Pinned
	ex.Pinned = nil
	defer func() { ex.Pinned = saved }()
	for _, in := range slice {
		fr.Block = in.Block()
		fr.Idx = -1
		for i, x := range fr.Block.Instrs {
			if x == in {
				fr.Idx = i
			}
		}
		if fr.Idx < 0 {
			return "internal: instruction not in its block"
		}
		var work []*Frame
		var outs []Outcome
		cont := ex.stepGuarded(fr, &work, &outs)
		if len(outs) > 0 {
			if outs[0].Kind == OAbort {
				return outs[0].Abort
			}
			return "initialiser panicked"
		}
		if !cont {
			if len(work) != 1 {
				return "initialiser forked"
			}
			fr = work[0]
		}
	}
	ex.Base = fr.St
	return ""
}

// RunGlobalInitDeep: an initialiser that reads another uninitialised global (or touches a package
// that needs its lazy init) gets that dependency initialised first, then is retried.
func (ex *Exec) RunGlobalInitDeep(key string, depth int) string {
	msg := ex.RunGlobalInit(key)
	for tries := 0; tries < 12 && strings.HasPrefix(msg, "NEEDINIT: "); tries++ {
		if depth > 6 {
			return msg
		}
		dep := strings.TrimPrefix(msg, "NEEDINIT: ")
		if i := strings.Index(dep, " in "); i >= 0 {
			dep = dep[:i]
		}
		var dmsg string
		if strings.HasPrefix(dep, "global:") {
			dmsg = ex.RunGlobalInitDeep(strings.TrimPrefix(dep, "global:"), depth+1)
		} else {
			dmsg = ex.RunPkgInit(dep)
		}
		if dmsg != "" {
			return dmsg
		}
		msg = ex.RunGlobalInit(key)
	}
	return msg
}

// ---- registries filled by init() functions
//
// A map of functions (e.g. common.typeIDDecoders) cannot be carried by the reflection snapshot;
// it is declared with an initialiser and filled by source-level init() functions that call a
// Register... function.  Such a global is initialised by the slice of its declaration followed by
// every source-level init function of the package that refers to it, directly or through a callee
// of the same package.

func (ex *Exec) snapIsFuncMap(snap interface{}, t types.Type, key string) bool {
	mt, ok := t.Underlying().(*types.Map)
	if !ok {
		return false
	}
	if !typeContainsFunc(mt.Elem(), 0) {
		return false
	}
	return !ex.globalInitFailed[key]
}

// typeContainsFunc: a value of the type holds a func somewhere (directly, in a struct field or an
// array element) - the reflection snapshot cannot carry it.
func typeContainsFunc(t types.Type, depth int) bool {
	if depth > 4 {
		return false
	}
	switch u := t.Underlying().(type) {
	case *types.Signature:
		return true
	case *types.Struct:
		for i := 0; i < u.NumFields(); i++ {
			if typeContainsFunc(u.Field(i).Type(), depth+1) {
				return true
			}
		}
	case *types.Array:
		return typeContainsFunc(u.Elem(), depth+1)
	}
	return false
}

func refersTo(fn *ssa.Function, g *ssa.Global, depth int) bool {
	for _, b := range fn.Blocks {
		for _, in := range b.Instrs {
			for _, op := range in.Operands(nil) {
				if *op == ssa.Value(g) {
					return true
				}
				if callee, ok := (*op).(*ssa.Function); ok && depth > 0 && callee.Pkg == g.Pkg && callee != fn {
					if refersTo(callee, g, depth-1) {
						return true
					}
				}
			}
		}
	}
	return false
}

func initFuncsTouching(g *ssa.Global) []*ssa.Function {
	var res []*ssa.Function
	for i := 1; ; i++ {
		f := g.Pkg.Func("init#" + strconv.Itoa(i))
		if f == nil {
			break
		}
		if refersTo(f, g, 2) {
			res = append(res, f)
		}
	}
	return res
}

func (ex *Exec) runInitFuncs(fns []*ssa.Function) string {
	saved := ex.Pinned
	ex.Pinned = nil
	defer func() { ex.Pinned = saved }()
	for _, f := range fns {
		outs := ex.CallFn(ex.Base, f, nil, nil, 1)
		if len(outs) != 1 || outs[0].Kind != ORet {
			if len(outs) >= 1 && outs[0].Kind == OAbort {
				return outs[0].Abort
			}
			return "init function forked or panicked: " + f.String()
		}
		ex.Base = outs[0].St
	}
	return ""
}
