module verif.local/gosmt

go 1.25

require (
	github.com/onflow/cadence v0.0.0
	golang.org/x/tools v0.39.0
)

require (
	golang.org/x/mod v0.30.0 // indirect
	golang.org/x/sync v0.18.0 // indirect
)

replace github.com/onflow/cadence => /repo
