package main

// Hash-consed SMT term DAG with constant folding and (for Int sort) interval tracking.

import (
	"fmt"
	"math/big"
	"strings"
	"sync"
)

type SortKind int

const (
	SBool SortKind = iota
	SBV
	SInt
)

type Sort struct {
	K SortKind
	W int
}

func (s Sort) String() string {
	switch s.K {
	case SBool:
		return "Bool"
	case SBV:
		return fmt.Sprintf("(_ BitVec %d)", s.W)
	default:
		return "Int"
	}
}

var BoolSort = Sort{K: SBool}
var IntSort = Sort{K: SInt}

func BVSort(w int) Sort { return Sort{K: SBV, W: w} }

type Term struct {
	ID   int
	Op   string
	Args []*Term
	S    Sort
	Val  *big.Int // for const (Bool: 0/1)
	Name string   // for var
	P    [2]int   // params: extract hi/lo, ext amount
	Lo   *big.Int // Int sort: known inclusive bounds (nil = unknown)
	Hi   *big.Int
}

func (t *Term) IsConst() bool { return t.Op == "const" }

func (t *Term) String() string {
	if t.IsConst() {
		if t.S.K == SBool {
			if t.Val.Sign() != 0 {
				return "true"
			}
			return "false"
		}
		return t.Val.String()
	}
	if t.Op == "var" {
		return t.Name
	}
	var sb strings.Builder
	sb.WriteString("(" + t.Op)
	for _, a := range t.Args {
		sb.WriteString(" ")
		if a.IsConst() || a.Op == "var" {
			sb.WriteString(a.String())
		} else {
			sb.WriteString(fmt.Sprintf("t%d", a.ID))
		}
	}
	sb.WriteString(")")
	return sb.String()
}

type TermStore struct {
	mu    sync.Mutex
	table map[string]*Term
	next  int
	nvars int
}

func NewTermStore() *TermStore {
	return &TermStore{table: map[string]*Term{}}
}

var TS = NewTermStore()

func (ts *TermStore) mk(op string, s Sort, val *big.Int, name string, p [2]int, args ...*Term) *Term {
	var sb strings.Builder
	sb.WriteString(op)
	sb.WriteByte('|')
	sb.WriteString(fmt.Sprintf("%d.%d|", s.K, s.W))
	if val != nil {
		sb.WriteString(val.String())
	}
	sb.WriteByte('|')
	sb.WriteString(name)
	sb.WriteString(fmt.Sprintf("|%d.%d|", p[0], p[1]))
	for _, a := range args {
		sb.WriteString(fmt.Sprintf("%d,", a.ID))
	}
	key := sb.String()
	ts.mu.Lock()
	defer ts.mu.Unlock()
	if t, ok := ts.table[key]; ok {
		return t
	}
	ts.next++
	t := &Term{ID: ts.next, Op: op, Args: args, S: s, Val: val, Name: name, P: p}
	ts.table[key] = t
	return t
}

// ---------- constants & vars

var bigOne = big.NewInt(1)
var bigZero = big.NewInt(0)

func pow2(w int) *big.Int { return new(big.Int).Lsh(bigOne, uint(w)) }

func normBV(v *big.Int, w int) *big.Int {
	m := pow2(w)
	r := new(big.Int).Mod(v, m)
	return r
}

func toSigned(v *big.Int, w int) *big.Int {
	// v in [0,2^w)
	if v.Bit(w-1) == 1 {
		return new(big.Int).Sub(v, pow2(w))
	}
	return new(big.Int).Set(v)
}

func True() *Term  { return TS.mk("const", BoolSort, bigOne, "", [2]int{}) }
func False() *Term { return TS.mk("const", BoolSort, bigZero, "", [2]int{}) }
func BoolC(b bool) *Term {
	if b {
		return True()
	}
	return False()
}
func BVC(v *big.Int, w int) *Term {
	return TS.mk("const", BVSort(w), normBV(v, w), "", [2]int{})
}
func BVC64(v uint64, w int) *Term { return BVC(new(big.Int).SetUint64(v), w) }
func IntC(v *big.Int) *Term {
	t := TS.mk("const", IntSort, new(big.Int).Set(v), "", [2]int{})
	t.Lo, t.Hi = t.Val, t.Val
	return t
}
func IntC64(v int64) *Term { return IntC(big.NewInt(v)) }

func NewVar(prefix string, s Sort) *Term {
	TS.mu.Lock()
	TS.nvars++
	n := TS.nvars
	TS.mu.Unlock()
	return TS.mk("var", s, nil, fmt.Sprintf("%s!%d", prefix, n), [2]int{})
}

// NewIntVarRanged creates an Int var with known bounds (the caller must also assert them).
func NewIntVarRanged(prefix string, lo, hi *big.Int) *Term {
	t := NewVar(prefix, IntSort)
	t.Lo, t.Hi = lo, hi
	return t
}

func (t *Term) BoolVal() (bool, bool) {
	if t.IsConst() && t.S.K == SBool {
		return t.Val.Sign() != 0, true
	}
	return false, false
}

// ---------- boolean

func Not(a *Term) *Term {
	if v, ok := a.BoolVal(); ok {
		return BoolC(!v)
	}
	if a.Op == "not" {
		return a.Args[0]
	}
	return TS.mk("not", BoolSort, nil, "", [2]int{}, a)
}

func And(a, b *Term) *Term {
	if v, ok := a.BoolVal(); ok {
		if v {
			return b
		}
		return False()
	}
	if v, ok := b.BoolVal(); ok {
		if v {
			return a
		}
		return False()
	}
	if a == b {
		return a
	}
	return TS.mk("and", BoolSort, nil, "", [2]int{}, a, b)
}

func Or(a, b *Term) *Term {
	if v, ok := a.BoolVal(); ok {
		if v {
			return True()
		}
		return b
	}
	if v, ok := b.BoolVal(); ok {
		if v {
			return True()
		}
		return a
	}
	if a == b {
		return a
	}
	return TS.mk("or", BoolSort, nil, "", [2]int{}, a, b)
}

func AndAll(ts []*Term) *Term {
	r := True()
	for _, t := range ts {
		r = And(r, t)
	}
	return r
}

func Implies(a, b *Term) *Term { return Or(Not(a), b) }

func Ite(c, a, b *Term) *Term {
	if v, ok := c.BoolVal(); ok {
		if v {
			return a
		}
		return b
	}
	if a == b {
		return a
	}
	if a.S != b.S {
		panic(fmt.Sprintf("ite sort mismatch %v %v", a.S, b.S))
	}
	if a.S.K == SBool {
		if av, ok := a.BoolVal(); ok {
			if av {
				return Or(c, b)
			}
			return And(Not(c), b)
		}
		if bv, ok := b.BoolVal(); ok {
			if bv {
				return Or(Not(c), a)
			}
			return And(c, a)
		}
	}
	t := TS.mk("ite", a.S, nil, "", [2]int{}, c, a, b)
	if a.S.K == SInt && t.Lo == nil && t.Hi == nil {
		if a.Lo != nil && b.Lo != nil {
			t.Lo = minBig(a.Lo, b.Lo)
		}
		if a.Hi != nil && b.Hi != nil {
			t.Hi = maxBig(a.Hi, b.Hi)
		}
	}
	return t
}

func minBig(a, b *big.Int) *big.Int {
	if a.Cmp(b) <= 0 {
		return a
	}
	return b
}
func maxBig(a, b *big.Int) *big.Int {
	if a.Cmp(b) >= 0 {
		return a
	}
	return b
}

func Eq(a, b *Term) *Term {
	if a.S != b.S {
		panic(fmt.Sprintf("eq sort mismatch %v %v: %v %v", a.S, b.S, a, b))
	}
	if a == b {
		return True()
	}
	if a.IsConst() && b.IsConst() {
		return BoolC(a.Val.Cmp(b.Val) == 0)
	}
	if a.S.K == SBool {
		if v, ok := a.BoolVal(); ok {
			if v {
				return b
			}
			return Not(b)
		}
		if v, ok := b.BoolVal(); ok {
			if v {
				return a
			}
			return Not(a)
		}
	}
	if a.S.K == SInt {
		if a.Hi != nil && b.Lo != nil && a.Hi.Cmp(b.Lo) < 0 {
			return False()
		}
		if b.Hi != nil && a.Lo != nil && b.Hi.Cmp(a.Lo) < 0 {
			return False()
		}
	}
	if a.ID > b.ID {
		a, b = b, a
	}
	return TS.mk("=", BoolSort, nil, "", [2]int{}, a, b)
}

// ---------- bit-vectors

func bvFold(op string, w int, a, b *big.Int) *big.Int {
	m := pow2(w)
	r := new(big.Int)
	switch op {
	case "bvadd":
		r.Add(a, b)
	case "bvsub":
		r.Sub(a, b)
	case "bvmul":
		r.Mul(a, b)
	case "bvudiv":
		if b.Sign() == 0 {
			r.Sub(m, bigOne)
		} else {
			r.Quo(a, b)
		}
	case "bvurem":
		if b.Sign() == 0 {
			r.Set(a)
		} else {
			r.Rem(a, b)
		}
	case "bvsdiv":
		sa, sb := toSigned(a, w), toSigned(b, w)
		if sb.Sign() == 0 {
			if sa.Sign() >= 0 {
				r.Sub(m, bigOne)
			} else {
				r.SetInt64(1)
			}
		} else {
			r.Quo(sa, sb)
		}
	case "bvsrem":
		sa, sb := toSigned(a, w), toSigned(b, w)
		if sb.Sign() == 0 {
			r.Set(sa)
		} else {
			r.Rem(sa, sb)
		}
	case "bvand":
		r.And(a, b)
	case "bvor":
		r.Or(a, b)
	case "bvxor":
		r.Xor(a, b)
	case "bvshl":
		if b.Cmp(big.NewInt(int64(w))) >= 0 {
			r.SetInt64(0)
		} else {
			r.Lsh(a, uint(b.Int64()))
		}
	case "bvlshr":
		if b.Cmp(big.NewInt(int64(w))) >= 0 {
			r.SetInt64(0)
		} else {
			r.Rsh(a, uint(b.Int64()))
		}
	case "bvashr":
		sa := toSigned(a, w)
		if b.Cmp(big.NewInt(int64(w))) >= 0 {
			if sa.Sign() < 0 {
				r.SetInt64(-1)
			} else {
				r.SetInt64(0)
			}
		} else {
			r.Rsh(sa, uint(b.Int64()))
		}
	default:
		panic("bvFold " + op)
	}
	return r.Mod(r, m)
}

func BV2(op string, a, b *Term) *Term {
	if a.S != b.S || a.S.K != SBV {
		panic(fmt.Sprintf("%s sort mismatch %v %v", op, a.S, b.S))
	}
	w := a.S.W
	if a.IsConst() && b.IsConst() {
		return BVC(bvFold(op, w, a.Val, b.Val), w)
	}
	// light identities
	switch op {
	case "bvadd", "bvor", "bvxor":
		if a.IsConst() && a.Val.Sign() == 0 {
			return b
		}
		if b.IsConst() && b.Val.Sign() == 0 {
			return a
		}
	case "bvsub", "bvshl", "bvlshr", "bvashr":
		if b.IsConst() && b.Val.Sign() == 0 {
			return a
		}
	case "bvmul":
		if a.IsConst() && a.Val.Cmp(bigOne) == 0 {
			return b
		}
		if b.IsConst() && b.Val.Cmp(bigOne) == 0 {
			return a
		}
		if (a.IsConst() && a.Val.Sign() == 0) || (b.IsConst() && b.Val.Sign() == 0) {
			return BVC(bigZero, w)
		}
	case "bvand":
		if (a.IsConst() && a.Val.Sign() == 0) || (b.IsConst() && b.Val.Sign() == 0) {
			return BVC(bigZero, w)
		}
		ones := new(big.Int).Sub(pow2(w), bigOne)
		if a.IsConst() && a.Val.Cmp(ones) == 0 {
			return b
		}
		if b.IsConst() && b.Val.Cmp(ones) == 0 {
			return a
		}
		if a == b {
			return a
		}
	}
	if (op == "bvor" || op == "bvand") && a == b {
		return a
	}
	return TS.mk(op, a.S, nil, "", [2]int{}, a, b)
}

func BVNot(a *Term) *Term {
	if a.IsConst() {
		return BVC(new(big.Int).Not(a.Val), a.S.W)
	}
	return TS.mk("bvnot", a.S, nil, "", [2]int{}, a)
}

func BVNeg(a *Term) *Term {
	if a.IsConst() {
		return BVC(new(big.Int).Neg(a.Val), a.S.W)
	}
	return TS.mk("bvneg", a.S, nil, "", [2]int{}, a)
}

func BVCmp(op string, a, b *Term) *Term {
	if a.S != b.S || a.S.K != SBV {
		panic(fmt.Sprintf("%s sort mismatch %v %v", op, a.S, b.S))
	}
	w := a.S.W
	if a.IsConst() && b.IsConst() {
		x, y := a.Val, b.Val
		if op[2] == 's' {
			x, y = toSigned(x, w), toSigned(y, w)
		}
		c := x.Cmp(y)
		switch op[3:] {
		case "lt":
			return BoolC(c < 0)
		case "le":
			return BoolC(c <= 0)
		case "gt":
			return BoolC(c > 0)
		case "ge":
			return BoolC(c >= 0)
		}
	}
	if a == b {
		switch op[3:] {
		case "lt", "gt":
			return False()
		default:
			return True()
		}
	}
	return TS.mk(op, BoolSort, nil, "", [2]int{}, a, b)
}

func Extract(hi, lo int, a *Term) *Term {
	if a.S.K != SBV {
		panic("extract non-bv")
	}
	if lo == 0 && hi == a.S.W-1 {
		return a
	}
	if a.IsConst() {
		v := new(big.Int).Rsh(a.Val, uint(lo))
		return BVC(v, hi-lo+1)
	}
	// extract of zero_extend / sign_extend low part
	if (a.Op == "zero_extend" || a.Op == "sign_extend") && hi < a.Args[0].S.W {
		return Extract(hi, lo, a.Args[0])
	}
	if a.Op == "zero_extend" && lo >= a.Args[0].S.W {
		return BVC(bigZero, hi-lo+1)
	}
	if a.Op == "concat" {
		lw := a.Args[1].S.W
		if hi < lw {
			return Extract(hi, lo, a.Args[1])
		}
		if lo >= lw {
			return Extract(hi-lw, lo-lw, a.Args[0])
		}
	}
	if a.Op == "extract" {
		return Extract(hi+a.P[1], lo+a.P[1], a.Args[0])
	}
	return TS.mk("extract", BVSort(hi-lo+1), nil, "", [2]int{hi, lo}, a)
}

func ZExt(a *Term, to int) *Term {
	n := to - a.S.W
	if n == 0 {
		return a
	}
	if n < 0 {
		panic("zext negative")
	}
	if a.IsConst() {
		return BVC(a.Val, to)
	}
	if a.Op == "zero_extend" {
		return ZExt(a.Args[0], to)
	}
	return TS.mk("zero_extend", BVSort(to), nil, "", [2]int{n, 0}, a)
}

func SExt(a *Term, to int) *Term {
	n := to - a.S.W
	if n == 0 {
		return a
	}
	if n < 0 {
		panic("sext negative")
	}
	if a.IsConst() {
		return BVC(toSigned(a.Val, a.S.W), to)
	}
	return TS.mk("sign_extend", BVSort(to), nil, "", [2]int{n, 0}, a)
}

func Concat(hi, lo *Term) *Term {
	if hi.IsConst() && lo.IsConst() {
		v := new(big.Int).Lsh(hi.Val, uint(lo.S.W))
		v.Or(v, lo.Val)
		return BVC(v, hi.S.W+lo.S.W)
	}
	return TS.mk("concat", BVSort(hi.S.W+lo.S.W), nil, "", [2]int{}, hi, lo)
}

// ---------- integers

func setBounds(t *Term, lo, hi *big.Int) *Term {
	if t.Lo == nil && lo != nil {
		t.Lo = lo
	}
	if t.Hi == nil && hi != nil {
		t.Hi = hi
	}
	return t
}

func IAdd(a, b *Term) *Term {
	if a.IsConst() && b.IsConst() {
		return IntC(new(big.Int).Add(a.Val, b.Val))
	}
	if a.IsConst() && a.Val.Sign() == 0 {
		return b
	}
	if b.IsConst() && b.Val.Sign() == 0 {
		return a
	}
	t := TS.mk("+", IntSort, nil, "", [2]int{}, a, b)
	var lo, hi *big.Int
	if a.Lo != nil && b.Lo != nil {
		lo = new(big.Int).Add(a.Lo, b.Lo)
	}
	if a.Hi != nil && b.Hi != nil {
		hi = new(big.Int).Add(a.Hi, b.Hi)
	}
	return setBounds(t, lo, hi)
}

func ISub(a, b *Term) *Term {
	if a.IsConst() && b.IsConst() {
		return IntC(new(big.Int).Sub(a.Val, b.Val))
	}
	if b.IsConst() && b.Val.Sign() == 0 {
		return a
	}
	if a == b {
		return IntC64(0)
	}
	t := TS.mk("-", IntSort, nil, "", [2]int{}, a, b)
	var lo, hi *big.Int
	if a.Lo != nil && b.Hi != nil {
		lo = new(big.Int).Sub(a.Lo, b.Hi)
	}
	if a.Hi != nil && b.Lo != nil {
		hi = new(big.Int).Sub(a.Hi, b.Lo)
	}
	return setBounds(t, lo, hi)
}

func INeg(a *Term) *Term { return ISub(IntC64(0), a) }

func IMul(a, b *Term) *Term {
	if a.IsConst() && b.IsConst() {
		return IntC(new(big.Int).Mul(a.Val, b.Val))
	}
	if a.IsConst() {
		a, b = b, a
	}
	if b.IsConst() {
		if b.Val.Sign() == 0 {
			return IntC64(0)
		}
		if b.Val.Cmp(bigOne) == 0 {
			return a
		}
	}
	t := TS.mk("*", IntSort, nil, "", [2]int{}, a, b)
	if a.Lo != nil && a.Hi != nil && b.Lo != nil && b.Hi != nil {
		c := []*big.Int{
			new(big.Int).Mul(a.Lo, b.Lo), new(big.Int).Mul(a.Lo, b.Hi),
			new(big.Int).Mul(a.Hi, b.Lo), new(big.Int).Mul(a.Hi, b.Hi)}
		lo, hi := c[0], c[0]
		for _, x := range c[1:] {
			lo, hi = minBig(lo, x), maxBig(hi, x)
		}
		setBounds(t, lo, hi)
	}
	return t
}

// IDiv / IMod are SMT-LIB (Euclidean) div/mod. Divisor zero is left uninterpreted by solvers,
// callers must guard.
func IDiv(a, b *Term) *Term {
	if a.IsConst() && b.IsConst() && b.Val.Sign() != 0 {
		q := new(big.Int)
		m := new(big.Int)
		q.DivMod(a.Val, b.Val, m)
		return IntC(q)
	}
	if b.IsConst() && b.Val.Cmp(bigOne) == 0 {
		return a
	}
	t := TS.mk("div", IntSort, nil, "", [2]int{}, a, b)
	if b.IsConst() && b.Val.Sign() > 0 {
		var lo, hi *big.Int
		if a.Lo != nil {
			lo = new(big.Int).Div(a.Lo, b.Val)
		}
		if a.Hi != nil {
			hi = new(big.Int).Div(a.Hi, b.Val)
		}
		setBounds(t, lo, hi)
	}
	return t
}

func IMod(a, b *Term) *Term {
	if a.IsConst() && b.IsConst() && b.Val.Sign() != 0 {
		return IntC(new(big.Int).Mod(a.Val, b.Val))
	}
	if b.IsConst() && b.Val.Sign() > 0 && a.Lo != nil && a.Hi != nil && a.Lo.Sign() >= 0 && a.Hi.Cmp(b.Val) < 0 {
		return a
	}
	t := TS.mk("mod", IntSort, nil, "", [2]int{}, a, b)
	if b.IsConst() && b.Val.Sign() != 0 {
		hi := new(big.Int).Abs(b.Val)
		hi.Sub(hi, bigOne)
		if a.Lo != nil && a.Lo.Sign() >= 0 && a.Hi != nil && a.Hi.Cmp(hi) < 0 {
			hi = a.Hi
		}
		setBounds(t, bigZero, hi)
	} else if b.Lo != nil && b.Hi != nil {
		m := maxBig(new(big.Int).Abs(b.Lo), new(big.Int).Abs(b.Hi))
		setBounds(t, bigZero, new(big.Int).Sub(m, bigOne))
	} else {
		setBounds(t, bigZero, nil)
	}
	return t
}

func ICmp(op string, a, b *Term) *Term { // op in < <= > >=
	if a.S.K != SInt || b.S.K != SInt {
		panic("ICmp on non-int")
	}
	if a.IsConst() && b.IsConst() {
		c := a.Val.Cmp(b.Val)
		switch op {
		case "<":
			return BoolC(c < 0)
		case "<=":
			return BoolC(c <= 0)
		case ">":
			return BoolC(c > 0)
		case ">=":
			return BoolC(c >= 0)
		}
	}
	switch op {
	case ">":
		return ICmp("<", b, a)
	case ">=":
		return ICmp("<=", b, a)
	}
	if a == b {
		return BoolC(op == "<=")
	}
	// interval decisions
	if a.Hi != nil && b.Lo != nil {
		c := a.Hi.Cmp(b.Lo)
		if c < 0 || (c == 0 && op == "<=") {
			return True()
		}
	}
	if a.Lo != nil && b.Hi != nil {
		c := a.Lo.Cmp(b.Hi)
		if c > 0 || (c == 0 && op == "<") {
			return False()
		}
	}
	return TS.mk(op, BoolSort, nil, "", [2]int{}, a, b)
}

// ---------- SMT-LIB printing

func (t *Term) smtHead() string {
	switch t.Op {
	case "extract":
		return fmt.Sprintf("(_ extract %d %d)", t.P[0], t.P[1])
	case "zero_extend":
		return fmt.Sprintf("(_ zero_extend %d)", t.P[0])
	case "sign_extend":
		return fmt.Sprintf("(_ sign_extend %d)", t.P[0])
	}
	return t.Op
}

func smtConst(t *Term) string {
	switch t.S.K {
	case SBool:
		if t.Val.Sign() != 0 {
			return "true"
		}
		return "false"
	case SBV:
		return fmt.Sprintf("(_ bv%s %d)", t.Val.String(), t.S.W)
	default:
		if t.Val.Sign() < 0 {
			return fmt.Sprintf("(- %s)", new(big.Int).Neg(t.Val).String())
		}
		return t.Val.String()
	}
}

func smtName(t *Term) string {
	if t.IsConst() {
		return smtConst(t)
	}
	if t.Op == "var" {
		return "|" + t.Name + "|"
	}
	return fmt.Sprintf("t%d", t.ID)
}

// Definitions emits declare-const/define-fun lines for all nodes reachable from roots that are
// not yet in done (which is updated).
func Definitions(roots []*Term, done map[int]bool, out *strings.Builder) {
	var visit func(t *Term)
	visit = func(t *Term) {
		if t.IsConst() || done[t.ID] {
			return
		}
		done[t.ID] = true
		for _, a := range t.Args {
			visit(a)
		}
		if t.Op == "var" {
			fmt.Fprintf(out, "(declare-const |%s| %s)\n", t.Name, t.S)
			return
		}
		fmt.Fprintf(out, "(define-fun t%d () %s (%s", t.ID, t.S, t.smtHead())
		for _, a := range t.Args {
			out.WriteByte(' ')
			out.WriteString(smtName(a))
		}
		out.WriteString("))\n")
	}
	for _, r := range roots {
		visit(r)
	}
}

// CollectVars returns the variables reachable from roots.
func CollectVars(roots []*Term) []*Term {
	seen := map[int]bool{}
	var vars []*Term
	var visit func(t *Term)
	visit = func(t *Term) {
		if seen[t.ID] {
			return
		}
		seen[t.ID] = true
		if t.Op == "var" {
			vars = append(vars, t)
		}
		for _, a := range t.Args {
			visit(a)
		}
	}
	for _, r := range roots {
		visit(r)
	}
	return vars
}

// Eval evaluates a term under an assignment of variables (by name). Used for self-checks.
func Eval(t *Term, env map[string]*big.Int, memo map[int]*big.Int) *big.Int {
	if t.IsConst() {
		return t.Val
	}
	if v, ok := memo[t.ID]; ok {
		return v
	}
	var r *big.Int
	if t.Op == "var" {
		v, ok := env[t.Name]
		if !ok {
			v = bigZero
		}
		if t.S.K == SBV {
			v = normBV(v, t.S.W)
		}
		memo[t.ID] = v
		return v
	}
	a := make([]*big.Int, len(t.Args))
	for i, x := range t.Args {
		a[i] = Eval(x, env, memo)
	}
	b2i := func(b bool) *big.Int {
		if b {
			return bigOne
		}
		return bigZero
	}
	switch t.Op {
	case "not":
		r = b2i(a[0].Sign() == 0)
	case "and":
		r = b2i(a[0].Sign() != 0 && a[1].Sign() != 0)
	case "or":
		r = b2i(a[0].Sign() != 0 || a[1].Sign() != 0)
	case "ite":
		if a[0].Sign() != 0 {
			r = a[1]
		} else {
			r = a[2]
		}
	case "=":
		r = b2i(a[0].Cmp(a[1]) == 0)
	case "bvnot":
		r = normBV(new(big.Int).Not(a[0]), t.S.W)
	case "bvneg":
		r = normBV(new(big.Int).Neg(a[0]), t.S.W)
	case "extract":
		r = normBV(new(big.Int).Rsh(a[0], uint(t.P[1])), t.S.W)
	case "zero_extend":
		r = a[0]
	case "sign_extend":
		r = normBV(toSigned(a[0], t.Args[0].S.W), t.S.W)
	case "concat":
		v := new(big.Int).Lsh(a[0], uint(t.Args[1].S.W))
		r = v.Or(v, a[1])
	case "+":
		r = new(big.Int).Add(a[0], a[1])
	case "-":
		r = new(big.Int).Sub(a[0], a[1])
	case "*":
		r = new(big.Int).Mul(a[0], a[1])
	case "div":
		if a[1].Sign() == 0 {
			r = bigZero
		} else {
			q, m := new(big.Int), new(big.Int)
			q.DivMod(a[0], a[1], m)
			r = q
		}
	case "mod":
		if a[1].Sign() == 0 {
			r = a[0]
		} else {
			r = new(big.Int).Mod(a[0], a[1])
		}
	case "<":
		r = b2i(a[0].Cmp(a[1]) < 0)
	case "<=":
		r = b2i(a[0].Cmp(a[1]) <= 0)
	default:
		if strings.HasPrefix(t.Op, "bv") {
			w := t.Args[0].S.W
			switch t.Op {
			case "bvult", "bvule", "bvugt", "bvuge", "bvslt", "bvsle", "bvsgt", "bvsge":
				x, y := a[0], a[1]
				if t.Op[2] == 's' {
					x, y = toSigned(x, w), toSigned(y, w)
				}
				c := x.Cmp(y)
				switch t.Op[3:] {
				case "lt":
					r = b2i(c < 0)
				case "le":
					r = b2i(c <= 0)
				case "gt":
					r = b2i(c > 0)
				case "ge":
					r = b2i(c >= 0)
				}
			default:
				r = bvFold(t.Op, w, a[0], a[1])
			}
		} else {
			panic("Eval: unknown op " + t.Op)
		}
	}
	memo[t.ID] = r
	return r
}
