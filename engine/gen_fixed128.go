package main

import (
	"fmt"
	"strings"
)

// Fix128 / UFix128 arithmetic: cadence's wrappers run for real; the external library's
// Mul/Div/Mod/FMD are replaced by contract stubs (fixlib.go), Add/Sub/Neg run from source.
func fix128Types() []convType {
	return []convType{
		{Name: "Fix128", Fix128: true, Signed: true, Scale: "1e24", Exp: 24},
		{Name: "UFix128", Fix128: true, Signed: false, Scale: "1e24", Exp: 24},
	}
}

const roundOracle = `
// zzRound: N/D (D != 0) rounded by the fixed-point rounding mode (0 toward zero, 1 away from zero,
// 2 nearest/half away, 3 nearest/half even), written from the language reference.
func zzRound(N, D *big.Int, mode int) *big.Int {
	q, r := new(big.Int).QuoRem(N, D, new(big.Int))
	if r.Sign() == 0 {
		return q
	}
	neg := (N.Sign() < 0) != (D.Sign() < 0)
	away := new(big.Int).Add(q, big.NewInt(1))
	if neg {
		away = new(big.Int).Sub(q, big.NewInt(1))
	}
	twice := new(big.Int).Mul(big.NewInt(2), new(big.Int).Abs(r))
	c := twice.Cmp(new(big.Int).Abs(D))
	switch mode {
	case 0:
		return q
	case 1:
		return away
	case 2:
		if c >= 0 {
			return away
		}
		return q
	default:
		if c > 0 || (c == 0 && new(big.Int).Abs(q).Bit(0) == 1) {
			return away
		}
		return q
	}
}
`

func genC15Fix128(tier string) (map[string]string, error) {
	var sb strings.Builder
	sb.WriteString(numericHeader)
	sb.WriteString(fix128Helpers)
	sb.WriteString(roundOracle)
	sb.WriteString("//verif:assume Fix128/UFix128: operands arbitrary 128-bit word pairs; the arithmetic of github.com/onflow/fixed-point (FMD/Mul/Div/Mod) is replaced by its documented contract (exact result rounded by the mode; overflow / negative overflow / underflow / division-by-zero errors), cadence's wrappers and error remapping run for real; the library's Add/Sub/Neg run from source\n")
	for _, t := range fix128Types() {
		mn, mx := t.minmax()
		pow24 := "zzPow10Big(24)"
		for _, op := range []string{"Plus", "Minus", "Mul", "Div", "Mod"} {
			mode := "int"
			if op == "Plus" || op == "Minus" {
				mode = "bv bigw=192"
			}
			fmt.Fprintf(&sb, "\n//verif:harness property=C15 mode=%s stubs=metering timeout=120\nfunc ZZ_C15_%s_%s() {\n", mode, t.Name, op)
			sb.WriteString(t.operand("x", "A"))
			sb.WriteString(t.operand("y", "B"))
			fmt.Fprintf(&sb, "\tout := zzCatch(func() any { return x.%s(nil, y) })\n", op)
			if op == "Div" || op == "Mod" {
				sb.WriteString("\tif B.Sign() == 0 {\n\t\tzzAssert(\"div-by-zero\", out.PanicIsErr(\"DivisionByZeroError\"))\n\t\treturn\n\t}\n")
			}
			switch op {
			case "Plus":
				sb.WriteString("\texact := new(big.Int).Add(A, B)\n")
			case "Minus":
				sb.WriteString("\texact := new(big.Int).Sub(A, B)\n")
			case "Mul":
				fmt.Fprintf(&sb, "\texact := new(big.Int).Quo(new(big.Int).Mul(A, B), %s)\n", pow24)
			case "Div":
				fmt.Fprintf(&sb, "\texact := new(big.Int).Quo(new(big.Int).Mul(A, %s), B)\n", pow24)
			case "Mod":
				sb.WriteString("\texact := new(big.Int).Rem(A, B)\n")
			}
			if op != "Mod" {
				if t.Signed || op != "Minus" {
					fmt.Fprintf(&sb, "\tif exact.Cmp(%s) > 0 {\n\t\tzzAssert(\"overflow\", out.PanicIsErr(\"OverflowError\"))\n\t\treturn\n\t}\n", mx)
				}
				if t.Signed || op == "Minus" {
					fmt.Fprintf(&sb, "\tif exact.Cmp(%s) < 0 {\n\t\tzzAssert(\"underflow\", out.PanicIsErr(\"UnderflowError\"))\n\t\treturn\n\t}\n", mn)
				}
			}
			sb.WriteString("\tzzAssert(\"no-failure\", !out.Panicked)\n\tif out.Panicked {\n\t\treturn\n\t}\n")
			fmt.Fprintf(&sb, "\tzzAssert(\"exact-truncated\", %s.Cmp(exact) == 0)\n}\n", t.resultBig("out.Value"))
		}
		// multiplyDivide with every rounding mode
		fmt.Fprintf(&sb, "\n//verif:harness property=C15 mode=int stubs=metering timeout=120\nfunc ZZ_C15_%s_MultiplyDivide() {\n", t.Name)
		sb.WriteString(t.operand("x", "A"))
		sb.WriteString(t.operand("y", "B"))
		sb.WriteString(t.operand("z", "C"))
		sb.WriteString("\tmode := zzChoice(4)\n")
		sb.WriteString("\tout := zzCatch(func() any { return x.MultiplyDivide(nil, y, z, fix.RoundingMode(mode)) })\n")
		sb.WriteString("\tif C.Sign() == 0 {\n\t\tzzAssert(\"div-by-zero\", out.PanicIsErr(\"DivisionByZeroError\"))\n\t\treturn\n\t}\n")
		sb.WriteString("\texact := zzRound(new(big.Int).Mul(A, B), C, mode)\n")
		fmt.Fprintf(&sb, "\tif exact.Cmp(%s) > 0 {\n\t\tzzAssert(\"overflow\", out.PanicIsErr(\"OverflowError\"))\n\t\treturn\n\t}\n", mx)
		if t.Signed {
			fmt.Fprintf(&sb, "\tif exact.Cmp(%s) < 0 {\n\t\tzzAssert(\"underflow\", out.PanicIsErr(\"UnderflowError\"))\n\t\treturn\n\t}\n", mn)
		}
		sb.WriteString("\tzzAssert(\"no-failure\", !out.Panicked)\n\tif out.Panicked {\n\t\treturn\n\t}\n")
		fmt.Fprintf(&sb, "\tzzAssert(\"rounded-by-requested-rule\", %s.Cmp(exact) == 0)\n}\n", t.resultBig("out.Value"))
		if t.Signed {
			fmt.Fprintf(&sb, "\n//verif:harness property=C15 mode=bv bigw=192 stubs=metering\nfunc ZZ_C15_%s_Negate() {\n", t.Name)
			sb.WriteString(t.operand("x", "A"))
			sb.WriteString("\tout := zzCatch(func() any { return x.Negate(nil) })\n\texact := new(big.Int).Neg(A)\n")
			// the property does not say which of the two range errors: the library reports -min as a negative overflow
			fmt.Fprintf(&sb, "\tif exact.Cmp(%s) > 0 {\n\t\tzzAssert(\"out-of-range-fails\", out.PanicIsErr(\"OverflowError\") || out.PanicIsErr(\"UnderflowError\"))\n\t\treturn\n\t}\n", mx)
			sb.WriteString("\tzzAssert(\"no-failure\", !out.Panicked)\n\tif out.Panicked {\n\t\treturn\n\t}\n")
			fmt.Fprintf(&sb, "\tzzAssert(\"exact-truncated\", %s.Cmp(exact) == 0)\n}\n", t.resultBig("out.Value"))
		}
	}
	return map[string]string{"fix128": sb.String()}, nil
}

func genC13Fix128(tier string) (map[string]string, error) {
	var sb strings.Builder
	sb.WriteString(numericHeader)
	sb.WriteString(fix128Helpers)
	for _, t := range fix128Types() {
		mn, mx := t.minmax()
		ops := []struct{ M, Op string }{{"SaturatingPlus", "Plus"}, {"SaturatingMinus", "Minus"}, {"SaturatingMul", "Mul"}}
		if t.Signed {
			ops = append(ops, struct{ M, Op string }{"SaturatingDiv", "Div"})
		}
		for _, op := range ops {
			mode := "int"
			if op.Op == "Plus" || op.Op == "Minus" {
				mode = "bv bigw=192"
			}
			fmt.Fprintf(&sb, "\n//verif:harness property=C13 mode=%s stubs=metering timeout=120\nfunc ZZ_C13_%s_%s() {\n", mode, t.Name, op.M)
			sb.WriteString(t.operand("x", "A"))
			sb.WriteString(t.operand("y", "B"))
			fmt.Fprintf(&sb, "\tout := zzCatch(func() any { return x.%s(nil, y) })\n", op.M)
			if op.Op == "Div" {
				sb.WriteString("\tif B.Sign() == 0 {\n\t\tzzAssert(\"div-by-zero\", out.PanicIsErr(\"DivisionByZeroError\"))\n\t\treturn\n\t}\n")
			}
			switch op.Op {
			case "Plus":
				sb.WriteString("\texact := new(big.Int).Add(A, B)\n")
			case "Minus":
				sb.WriteString("\texact := new(big.Int).Sub(A, B)\n")
			case "Mul":
				sb.WriteString("\texact := new(big.Int).Quo(new(big.Int).Mul(A, B), zzPow10Big(24))\n")
			case "Div":
				sb.WriteString("\texact := new(big.Int).Quo(new(big.Int).Mul(A, zzPow10Big(24)), B)\n")
			}
			fmt.Fprintf(&sb, "\tmx := %s\n\tmn := %s\n", mx, mn)
			sb.WriteString("\tclamped := zzIteBig(exact.Cmp(mx) > 0, mx, exact)\n\tclamped = zzIteBig(clamped.Cmp(mn) < 0, mn, clamped)\n")
			sb.WriteString("\tzzAssert(\"never-fails\", !out.Panicked)\n\tif out.Panicked {\n\t\treturn\n\t}\n")
			fmt.Fprintf(&sb, "\tzzAssert(\"clamps\", %s.Cmp(clamped) == 0)\n}\n", t.resultBig("out.Value"))
		}
	}
	return map[string]string{"satfix128": sb.String()}, nil
}

func genC15Fix64FMD(tier string) (map[string]string, error) {
	var sb strings.Builder
	sb.WriteString(numericHeader) // zzRound comes from the Fix128 file of the same package
	for _, t := range fix64Types {
		tierAttr := ""
		if t.Signed {
			tierAttr = " tier=thorough" // ~10 min of solver time (signed 64-bit wrap terms); UFix64 covers the shared wiring in quick
		}
		fmt.Fprintf(&sb, "\n//verif:harness property=C15 mode=int stubs=metering timeout=300%s\nfunc ZZ_C15_%s_MultiplyDivide() {\n", tierAttr, t.Name)
		sb.WriteString(t.operand("x", "A"))
		sb.WriteString(t.operand("y", "B"))
		sb.WriteString(t.operand("z", "C"))
		sb.WriteString("\tmode := zzChoice(4)\n")
		sb.WriteString("\tout := zzCatch(func() any { return x.MultiplyDivide(nil, y, z, fix.RoundingMode(mode)) })\n")
		sb.WriteString("\tif C.Sign() == 0 {\n\t\tzzAssert(\"div-by-zero\", out.PanicIsErr(\"DivisionByZeroError\"))\n\t\treturn\n\t}\n")
		sb.WriteString("\texact := zzRound(new(big.Int).Mul(A, B), C, mode)\n")
		fmt.Fprintf(&sb, "\tif exact.Cmp(%s) > 0 {\n\t\tzzAssert(\"overflow\", out.PanicIsErr(\"OverflowError\"))\n\t\treturn\n\t}\n", t.max())
		if t.Signed {
			fmt.Fprintf(&sb, "\tif exact.Cmp(%s) < 0 {\n\t\tzzAssert(\"underflow\", out.PanicIsErr(\"UnderflowError\"))\n\t\treturn\n\t}\n", t.min())
		}
		sb.WriteString("\tzzAssert(\"no-failure\", !out.Panicked)\n\tif out.Panicked {\n\t\treturn\n\t}\n")
		fmt.Fprintf(&sb, "\tzzAssert(\"rounded-by-requested-rule\", %s.Cmp(exact) == 0)\n}\n", t.resultBig("out.Value"))
	}
	return map[string]string{"fix64fmd": sb.String()}, nil
}

// C16: conversions with a rounding rule (Fix128/UFix128 -> Fix64/UFix64)
func genC16Rounding(tier string) (map[string]string, error) {
	var sb strings.Builder
	sb.WriteString(numericHeader) // zzPow10Big / zzFix128Big come from the conversion file
	sb.WriteString(roundOracle)
	for _, src := range fix128Types() {
		for _, dst := range fix64Types {
			fmt.Fprintf(&sb, "\n//verif:harness property=C16 mode=int stubs=metering timeout=120\nfunc ZZ_C16_%s_to_%s_WithRounding() {\n", src.Name, dst.Name)
			sb.WriteString(src.operand("x", "A"))
			sb.WriteString("\tmode := zzChoice(4)\n")
			fmt.Fprintf(&sb, "\tout := zzCatch(func() any { return Convert%sWithRounding(nil, x, fix.RoundingMode(mode)) })\n", dst.Name)
			sb.WriteString("\tt := zzRound(A, zzPow10Big(16), mode)\n")
			fmt.Fprintf(&sb, "\tif zzOr(t.Cmp(%s) > 0, t.Cmp(%s) < 0) {\n\t\tzzAssert(\"out-of-range-fails\", out.PanicIsErr(\"OverflowError\") || out.PanicIsErr(\"UnderflowError\"))\n\t\treturn\n\t}\n", dst.max(), dst.min())
			sb.WriteString("\tzzKnownFinding(\"C16-rounding-conversion-fails-when-rounding-to-zero\", zzAnd(A.Sign() != 0, t.Sign() == 0))\n")
			sb.WriteString("\tzzAssert(\"no-failure\", !out.Panicked)\n\tif out.Panicked {\n\t\treturn\n\t}\n")
			fmt.Fprintf(&sb, "\tzzAssert(\"rounded-by-requested-rule\", %s.Cmp(t) == 0)\n}\n", dst.resultBig("out.Value"))
		}
	}
	return map[string]string{"rounding": sb.String()}, nil
}

func init() {
	generators["C15"] = append(generators["C15"], genC15Fix64FMD)
	generators["C16"] = append(generators["C16"], genC16Rounding)
	generators["C15"] = append(generators["C15"], genC15Fix128)
	generators["C13"] = append(generators["C13"], genC13Fix128)
}
