package main

// Go integer semantics over the two encodings (bv-mode / int-mode).

import (
	"go/token"
	"go/types"
	"math/big"
)

type IntKind struct {
	W      int
	Signed bool
}

func basicIntKind(t types.Type) (IntKind, bool) {
	b, ok := t.Underlying().(*types.Basic)
	if !ok {
		return IntKind{}, false
	}
	switch b.Kind() {
	case types.Int8:
		return IntKind{8, true}, true
	case types.Int16:
		return IntKind{16, true}, true
	case types.Int32, types.UntypedRune:
		return IntKind{32, true}, true
	case types.Int64, types.Int, types.UntypedInt:
		return IntKind{64, true}, true
	case types.Uint8:
		return IntKind{8, false}, true
	case types.Uint16:
		return IntKind{16, false}, true
	case types.Uint32:
		return IntKind{32, false}, true
	case types.Uint64, types.Uint, types.Uintptr:
		return IntKind{64, false}, true
	}
	return IntKind{}, false
}

func (k IntKind) Min() *big.Int {
	if !k.Signed {
		return bigZero
	}
	return new(big.Int).Neg(pow2(k.W - 1))
}

func (k IntKind) Max() *big.Int {
	if !k.Signed {
		return new(big.Int).Sub(pow2(k.W), bigOne)
	}
	return new(big.Int).Sub(pow2(k.W-1), bigOne)
}

func (ex *Exec) intConst(v *big.Int, k IntKind) *Term {
	if ex.IntMode {
		return IntC(v)
	}
	return BVC(v, k.W)
}

// wrap reduces a mathematical Int term into the range of kind k (int-mode only).
func (ex *Exec) wrap(t *Term, k IntKind) *Term {
	lo, hi := k.Min(), k.Max()
	if t.Lo != nil && t.Hi != nil && t.Lo.Cmp(lo) >= 0 && t.Hi.Cmp(hi) <= 0 {
		return t
	}
	m := IntC(pow2(k.W))
	if !k.Signed {
		return IMod(t, m)
	}
	half := IntC(pow2(k.W - 1))
	return ISub(IMod(IAdd(t, half), m), half)
}

// truncated division/remainder in Int theory (Go semantics), divisor assumed non-zero.
func tdiv(a, b *Term) *Term {
	if a.IsConst() && b.IsConst() && b.Val.Sign() != 0 {
		return IntC(new(big.Int).Quo(a.Val, b.Val))
	}
	if a.Lo != nil && a.Lo.Sign() >= 0 && b.Lo != nil && b.Lo.Sign() > 0 {
		return IDiv(a, b)
	}
	zero := IntC64(0)
	// q = div(|a|,|b|) with sign
	absA := Ite(ICmp("<", a, zero), INeg(a), a)
	absB := Ite(ICmp("<", b, zero), INeg(b), b)
	q := IDiv(absA, absB)
	neg := Not(Eq(ICmp("<", a, zero), ICmp("<", b, zero)))
	r := Ite(neg, INeg(q), q)
	return r
}

func trem(a, b *Term) *Term {
	if a.IsConst() && b.IsConst() && b.Val.Sign() != 0 {
		return IntC(new(big.Int).Rem(a.Val, b.Val))
	}
	if a.Lo != nil && a.Lo.Sign() >= 0 && b.Lo != nil && b.Lo.Sign() > 0 {
		return IMod(a, b)
	}
	zero := IntC64(0)
	absA := Ite(ICmp("<", a, zero), INeg(a), a)
	absB := Ite(ICmp("<", b, zero), INeg(b), b)
	m := IMod(absA, absB)
	return Ite(ICmp("<", a, zero), INeg(m), m)
}

// isPow2Minus1 reports k if v == 2^k - 1.
func isPow2Minus1(v *big.Int) (int, bool) {
	if v.Sign() < 0 {
		return 0, false
	}
	x := new(big.Int).Add(v, bigOne)
	if x.BitLen() > 0 && new(big.Int).And(x, v).Sign() == 0 {
		return x.BitLen() - 1, true
	}
	return 0, false
}

// arith implements x op y for integer kind k. Division by zero must be checked by the caller.
func (ex *Exec) arith(op token.Token, x, y *Term, k IntKind) *Term {
	if !ex.IntMode {
		switch op {
		case token.ADD:
			return BV2("bvadd", x, y)
		case token.SUB:
			return BV2("bvsub", x, y)
		case token.MUL:
			return BV2("bvmul", x, y)
		case token.QUO:
			if k.Signed {
				return BV2("bvsdiv", x, y)
			}
			return BV2("bvudiv", x, y)
		case token.REM:
			if k.Signed {
				return BV2("bvsrem", x, y)
			}
			return BV2("bvurem", x, y)
		case token.AND:
			return BV2("bvand", x, y)
		case token.OR:
			return BV2("bvor", x, y)
		case token.XOR:
			return BV2("bvxor", x, y)
		case token.AND_NOT:
			return BV2("bvand", x, BVNot(y))
		}
		unsupported("bv arith op %v", op)
	}
	switch op {
	case token.ADD:
		return ex.wrap(IAdd(x, y), k)
	case token.SUB:
		return ex.wrap(ISub(x, y), k)
	case token.MUL:
		return ex.wrap(IMul(x, y), k)
	case token.QUO:
		return ex.wrap(tdiv(x, y), k)
	case token.REM:
		return trem(x, y)
	case token.AND:
		if y.IsConst() {
			if n, ok := isPow2Minus1(y.Val); ok {
				return IMod(x, IntC(pow2(n)))
			}
		}
		if x.IsConst() {
			if n, ok := isPow2Minus1(x.Val); ok {
				return IMod(y, IntC(pow2(n)))
			}
		}
		if x.IsConst() && y.IsConst() {
			return IntC(new(big.Int).And(x.Val, y.Val))
		}
		// single-bit mask 2^k: ((x div 2^k) mod 2) * 2^k
		for _, pr := range [][2]*Term{{x, y}, {y, x}} {
			v, m := pr[0], pr[1]
			if m.IsConst() && m.Val.Sign() > 0 && new(big.Int).And(m.Val, new(big.Int).Sub(m.Val, bigOne)).Sign() == 0 {
				return IMul(IMod(IDiv(v, IntC(m.Val)), IntC64(2)), IntC(m.Val))
			}
		}
	case token.OR, token.XOR, token.AND_NOT:
		if x.IsConst() && y.IsConst() {
			r := new(big.Int)
			switch op {
			case token.OR:
				r.Or(x.Val, y.Val)
			case token.XOR:
				r.Xor(x.Val, y.Val)
			default:
				r.AndNot(x.Val, y.Val)
			}
			return IntC(r)
		}
	}
	unsupported("int-mode arithmetic op %v on symbolic operands", op)
	return nil
}

// shift implements x << s / x >> s; s is a term of kind sk (already checked non-negative).
func (ex *Exec) shift(op token.Token, x, s *Term, k, sk IntKind) *Term {
	if !ex.IntMode {
		// bring s to width of x, saturating at >= W
		var sw *Term
		if s.S.W > x.S.W {
			big_ := BVCmp("bvuge", s, BVC64(uint64(x.S.W), s.S.W))
			sw = Ite(big_, BVC64(uint64(x.S.W), x.S.W), Extract(x.S.W-1, 0, s))
		} else {
			sw = ZExt(s, x.S.W)
		}
		if op == token.SHL {
			return BV2("bvshl", x, sw)
		}
		if k.Signed {
			return BV2("bvashr", x, sw)
		}
		return BV2("bvlshr", x, sw)
	}
	if !s.IsConst() {
		unsupported("int-mode shift by symbolic amount")
	}
	n := s.Val
	if n.Cmp(big.NewInt(int64(k.W))) >= 0 {
		if op == token.SHL {
			return IntC64(0)
		}
		if k.Signed {
			return Ite(ICmp("<", x, IntC64(0)), IntC64(-1), IntC64(0))
		}
		return IntC64(0)
	}
	p := IntC(pow2(int(n.Int64())))
	if op == token.SHL {
		return ex.wrap(IMul(x, p), k)
	}
	return IDiv(x, p) // floor division = arithmetic shift
}

func (ex *Exec) cmp(op token.Token, x, y *Term, k IntKind) *Term {
	switch op {
	case token.EQL:
		return Eq(x, y)
	case token.NEQ:
		return Not(Eq(x, y))
	}
	if ex.IntMode {
		switch op {
		case token.LSS:
			return ICmp("<", x, y)
		case token.LEQ:
			return ICmp("<=", x, y)
		case token.GTR:
			return ICmp(">", x, y)
		case token.GEQ:
			return ICmp(">=", x, y)
		}
	} else {
		p := "bvu"
		if k.Signed {
			p = "bvs"
		}
		switch op {
		case token.LSS:
			return BVCmp(p+"lt", x, y)
		case token.LEQ:
			return BVCmp(p+"le", x, y)
		case token.GTR:
			return BVCmp(p+"gt", x, y)
		case token.GEQ:
			return BVCmp(p+"ge", x, y)
		}
	}
	unsupported("cmp op %v", op)
	return nil
}

// convertInt converts an integer term from kind a to kind b.
func (ex *Exec) convertInt(x *Term, a, b IntKind) *Term {
	if ex.IntMode {
		return ex.wrap(x, b)
	}
	if b.W == a.W {
		return x
	}
	if b.W < a.W {
		return Extract(b.W-1, 0, x)
	}
	if a.Signed {
		return SExt(x, b.W)
	}
	return ZExt(x, b.W)
}

func (ex *Exec) neg(x *Term, k IntKind) *Term {
	if ex.IntMode {
		return ex.wrap(INeg(x), k)
	}
	return BVNeg(x)
}

func (ex *Exec) bitnot(x *Term, k IntKind) *Term {
	if ex.IntMode {
		if k.Signed {
			return ISub(IntC64(-1), x)
		}
		return ISub(IntC(k.Max()), x)
	}
	return BVNot(x)
}

// isNeg / geZero helpers on kind-typed terms
func (ex *Exec) ltZero(x *Term, k IntKind) *Term {
	if !k.Signed {
		return False()
	}
	return ex.cmp(token.LSS, x, ex.intConst(bigZero, k), k)
}

// toMath converts a kind-typed term to a mathematical Int term (int-mode: identity). In bv-mode
// it is not available.
func (ex *Exec) newNondet(st *State, kind string, k IntKind) *Term {
	var t *Term
	if ex.IntMode {
		t = NewIntVarRanged(kind, k.Min(), k.Max())
		st.PC = append(st.PC, ICmpRaw("<=", IntC(k.Min()), t), ICmpRaw("<=", t, IntC(k.Max())))
	} else {
		t = NewVar(kind, BVSort(k.W))
	}
	st.Nondets = append(st.Nondets, NondetRec{Kind: kind, T: t})
	return t
}

// ICmpRaw builds the comparison without interval-based simplification (used to assert the very
// bounds the intervals are derived from).
func ICmpRaw(op string, a, b *Term) *Term {
	if a.IsConst() && b.IsConst() {
		return ICmp(op, a, b)
	}
	return TS.mk(op, BoolSort, nil, "", [2]int{}, a, b)
}
