package main

import (
	"fmt"
	"os"
	"path/filepath"
	"regexp"
	"sort"
	"strings"
)

const harnessRoot = "/verif/harness"

var pkgLineRe = regexp.MustCompile(`(?m)^//verif:pkg (\S+)\s*$`)

type planBuilder func(tier string) (*PropertyPlan, error)

var planBuilders = map[string]planBuilder{}

func newPlan(id string) *PropertyPlan {
	return &PropertyPlan{ID: id, Files: map[string][]HarnessFile{}}
}

// addSource registers a harness source (which must contain a //verif:pkg line).
func (p *PropertyPlan) addSource(name, src string) error {
	m := pkgLineRe.FindStringSubmatch(src)
	if m == nil {
		return fmt.Errorf("harness source %s lacks //verif:pkg", name)
	}
	dir := m[1]
	p.Files[dir] = append(p.Files[dir], HarnessFile{Name: "zz_verif_" + name + ".go", Content: src})
	return nil
}

// addStatic adds every *.go file in /verif/harness/<ID>/.
func (p *PropertyPlan) addStatic() error {
	files, _ := filepath.Glob(filepath.Join(harnessRoot, p.ID, "*.go"))
	sort.Strings(files)
	for _, f := range files {
		data, err := os.ReadFile(f)
		if err != nil {
			return err
		}
		base := strings.TrimSuffix(filepath.Base(f), ".go")
		if err := p.addSource(strings.ToLower(p.ID)+"_"+base, string(data)); err != nil {
			return err
		}
	}
	return nil
}

func readTemplate(id, name string) (string, error) {
	data, err := os.ReadFile(filepath.Join(harnessRoot, id, name))
	return string(data), err
}

// splitTemplate separates the preamble (everything before the first //verif:harness) from the
// individual harness functions.
func splitTemplate(src string) (pre string, harnesses []string) {
	idx := harnessRe.FindAllStringIndex(src, -1)
	if len(idx) == 0 {
		return src, nil
	}
	pre = src[:idx[0][0]]
	for i, loc := range idx {
		end := len(src)
		if i+1 < len(idx) {
			end = idx[i+1][0]
		}
		harnesses = append(harnesses, src[loc[0]:end])
	}
	return
}

func init() {
	planBuilders["C46"] = func(tier string) (*PropertyPlan, error) {
		p := newPlan("C46")
		tmpl, err := readTemplate("C46", "rlp.go.tmpl")
		if err != nil {
			return nil, err
		}
		pre, hs := splitTemplate(tmpl)
		maxLen := map[string]int{"ReadSize": 10, "DecodeString": 10, "DecodeList": 4, "DecodeListLongItem": 10}
		if tier == "thorough" {
			maxLen = map[string]int{"ReadSize": 12, "DecodeString": 14, "DecodeList": 6, "DecodeListLongItem": 12}
		}
		var sb strings.Builder
		sb.WriteString(pre)
		for _, h := range hs {
			for kind, mx := range maxLen {
				if !strings.Contains(h, "ZZ_C46_"+kind+"_LLEN") {
					continue
				}
				for n := minLenFor(kind); n <= mx; n++ {
					s := strings.ReplaceAll(h, "LLEN", fmt.Sprintf("L%d", n))
					s = strings.ReplaceAll(s, "LEN", fmt.Sprintf("%d", n))
					sb.WriteString(s)
				}
			}
		}
		if err := p.addSource("c46_rlp", sb.String()); err != nil {
			return nil, err
		}
		planAssumptions["C46"] = []string{
			"input length bounded (see bounds); every byte value and 8-byte length prefixes up to 2^64-1 are inside the bound",
			"DecodeString/DecodeList are called with startIndex 0 as the Cadence wrappers do; ReadSize with arbitrary startIndex >= 0",
			"array-value conversion in stdlib/rlp.go (atree) is outside the claim; its trailing-bytes test is checked on the symbolic results",
			"slice growth policy of append is modelled as doubling (not observable by the code under test)",
		}
		return p, nil
	}
}

func minLenFor(kind string) int {
	if kind == "DecodeListLongItem" {
		return 3
	}
	return 0
}
