package main

import (
	"fmt"
	"os"
	"path/filepath"
	"regexp"
	"sort"
	"strconv"
	"strings"
)

const harnessRoot = "/verif/harness"

var pkgLineRe = regexp.MustCompile(`(?m)^//verif:pkg (\S+)\s*$`)
var dumpLineRe = regexp.MustCompile(`(?m)^//verif:dump (\S+)\s*$`)
var assumeLineRe = regexp.MustCompile(`(?m)^//verif:assume (.*)$`)

type planBuilder func(tier string) (*PropertyPlan, error)

// generators produce additional harness sources for a property (name -> source).
type generator func(tier string) (map[string]string, error)

var generators = map[string][]generator{}

func newPlan(id string) *PropertyPlan {
	return &PropertyPlan{ID: id, Files: map[string][]HarnessFile{}}
}

// addSource registers a harness source (which must contain a //verif:pkg line).
func (p *PropertyPlan) addSource(name, src string, tier string) error {
	m := pkgLineRe.FindStringSubmatch(src)
	if m == nil {
		return fmt.Errorf("harness source %s lacks //verif:pkg", name)
	}
	dir := m[1]
	for _, d := range dumpLineRe.FindAllStringSubmatch(src, -1) {
		if d[1] == "." {
			d[1] = "" // the module's root package
		}
		found := false
		for _, x := range p.DumpDirs {
			if x == d[1] {
				found = true
			}
		}
		if !found {
			p.DumpDirs = append(p.DumpDirs, d[1])
		}
	}
	for _, a := range assumeLineRe.FindAllStringSubmatch(src, -1) {
		planAssumptions[p.ID] = append(planAssumptions[p.ID], strings.TrimSpace(a[1]))
	}
	src = expandLens(src, tier)
	p.Files[dir] = append(p.Files[dir], HarnessFile{Name: "zz_verif_" + name + ".go", Content: src})
	return nil
}

// splitTemplate separates the preamble (everything before the first //verif:harness) from the
// individual harness functions.
func splitTemplate(src string) (pre string, harnesses []string) {
	idx := harnessRe.FindAllStringIndex(src, -1)
	if len(idx) == 0 {
		return src, nil
	}
	pre = src[:idx[0][0]]
	for i, loc := range idx {
		end := len(src)
		if i+1 < len(idx) {
			end = idx[i+1][0]
		}
		harnesses = append(harnesses, src[loc[0]:end])
	}
	return
}

var lensRe = regexp.MustCompile(`\blens=(\d+)\.\.(\d+)`)
var tlensRe = regexp.MustCompile(`\bthorough_lens=(\d+)\.\.(\d+)`)

// expandLens instantiates harnesses whose name ends in _LLEN once per length in the range given
// by lens=a..b (thorough_lens=a..b for the thorough tier): LLEN -> L<n>, LEN -> <n>.
func expandLens(src string, tier string) string {
	pre, hs := splitTemplate(src)
	var sb strings.Builder
	sb.WriteString(pre)
	for _, h := range hs {
		first := h[:strings.Index(h, "\n")]
		m := lensRe.FindStringSubmatch(first)
		if tier == "thorough" {
			if tm := tlensRe.FindStringSubmatch(first); tm != nil {
				m = tm
			}
		}
		if m == nil || !strings.Contains(h, "LLEN") {
			sb.WriteString(h)
			continue
		}
		lo, _ := strconv.Atoi(m[1])
		hi, _ := strconv.Atoi(m[2])
		for n := lo; n <= hi; n++ {
			s := strings.ReplaceAll(h, "LLEN", fmt.Sprintf("L%d", n))
			s = strings.ReplaceAll(s, "LEN", fmt.Sprintf("%d", n))
			sb.WriteString(s)
		}
	}
	return sb.String()
}

// buildPlan: all *.go files of /verif/harness/<ID>/ plus the property's generators.
func buildPlan(id string, tier string) (*PropertyPlan, error) {
	p := newPlan(id)
	planAssumptions[id] = nil
	files, _ := filepath.Glob(filepath.Join(harnessRoot, id, "*.go"))
	sort.Strings(files)
	for _, f := range files {
		data, err := os.ReadFile(f)
		if err != nil {
			return nil, err
		}
		base := strings.TrimSuffix(filepath.Base(f), ".go")
		if err := p.addSource(strings.ToLower(id)+"_"+base, string(data), tier); err != nil {
			return nil, err
		}
	}
	for _, g := range generators[id] {
		srcs, err := g(tier)
		if err != nil {
			return nil, err
		}
		var names []string
		for n := range srcs {
			names = append(names, n)
		}
		sort.Strings(names)
		for _, n := range names {
			if err := p.addSource(strings.ToLower(id)+"_gen_"+n, srcs[n], tier); err != nil {
				return nil, err
			}
		}
	}
	if len(p.Files) == 0 {
		return nil, fmt.Errorf("no harnesses for property %s", id)
	}
	return p, nil
}

func knownProperties() []string {
	seen := map[string]bool{}
	dirs, _ := filepath.Glob(filepath.Join(harnessRoot, "C*"))
	for _, d := range dirs {
		seen[filepath.Base(d)] = true
	}
	for id := range generators {
		seen[id] = true
	}
	return keys(seen)
}
