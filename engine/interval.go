package main

// Cheap interval reasoning on bit-vector terms (unsigned intervals of variables learned from
// the path condition). Used only to skip solver calls whose answer is forced; every answer it gives
// is implied by the path condition, so it never changes which paths are explored.

import "math/big"

type ival struct{ lo, hi *big.Int }

func fullIval(w int) ival { return ival{bigZero, new(big.Int).Sub(pow2(w), bigOne)} }

// learn records bounds from a new path-condition conjunct of the form  var <op> const.
func (s *State) learn(c *Term) {
	neg := false
	if c.Op == "not" {
		neg = true
		c = c.Args[0]
	}
	if len(c.Args) != 2 {
		return
	}
	a, b := c.Args[0], c.Args[1]
	op := c.Op
	// normalise to var OP const
	if a.IsConst() && b.Op == "var" {
		a, b = b, a
		switch op {
		case "bvult":
			op = "bvugt"
		case "bvule":
			op = "bvuge"
		case "bvugt":
			op = "bvult"
		case "bvuge":
			op = "bvule"
		}
	}
	if a.Op != "var" || !b.IsConst() || a.S.K != SBV {
		return
	}
	if neg {
		switch op {
		case "bvult":
			op = "bvuge"
		case "bvule":
			op = "bvugt"
		case "bvugt":
			op = "bvule"
		case "bvuge":
			op = "bvult"
		case "=":
			return
		default:
			return
		}
	}
	cur, ok := s.Bounds[a.ID]
	if !ok {
		cur = fullIval(a.S.W)
	}
	v := b.Val
	switch op {
	case "bvult":
		if v.Sign() == 0 {
			return
		}
		cur.hi = minBig(cur.hi, new(big.Int).Sub(v, bigOne))
	case "bvule":
		cur.hi = minBig(cur.hi, v)
	case "bvugt":
		cur.lo = maxBig(cur.lo, new(big.Int).Add(v, bigOne))
	case "bvuge":
		cur.lo = maxBig(cur.lo, v)
	case "=":
		cur.lo, cur.hi = maxBig(cur.lo, v), minBig(cur.hi, v)
	default:
		return
	}
	if s.Bounds == nil {
		s.Bounds = map[int]ival{}
	}
	s.Bounds[a.ID] = cur
}

func (s *State) ivalOf(t *Term, memo map[int]ival) ival {
	if t.S.K != SBV {
		return ival{}
	}
	if t.IsConst() {
		return ival{t.Val, t.Val}
	}
	if r, ok := memo[t.ID]; ok {
		return r
	}
	w := t.S.W
	r := fullIval(w)
	max := r.hi
	switch t.Op {
	case "var":
		if b, ok := s.Bounds[t.ID]; ok {
			r = b
		}
	case "zero_extend":
		r = s.ivalOf(t.Args[0], memo)
	case "bvadd":
		a, b := s.ivalOf(t.Args[0], memo), s.ivalOf(t.Args[1], memo)
		hi := new(big.Int).Add(a.hi, b.hi)
		if hi.Cmp(max) <= 0 {
			r = ival{new(big.Int).Add(a.lo, b.lo), hi}
		}
	case "bvsub":
		a, b := s.ivalOf(t.Args[0], memo), s.ivalOf(t.Args[1], memo)
		if a.lo.Cmp(b.hi) >= 0 {
			r = ival{new(big.Int).Sub(a.lo, b.hi), new(big.Int).Sub(a.hi, b.lo)}
		}
	case "extract":
		if t.P[1] == 0 {
			a := s.ivalOf(t.Args[0], memo)
			if a.hi.Cmp(max) <= 0 {
				r = a
			}
		}
	case "ite":
		a, b := s.ivalOf(t.Args[1], memo), s.ivalOf(t.Args[2], memo)
		r = ival{minBig(a.lo, b.lo), maxBig(a.hi, b.hi)}
	case "bvand":
		a, b := s.ivalOf(t.Args[0], memo), s.ivalOf(t.Args[1], memo)
		r = ival{bigZero, minBig(a.hi, b.hi)}
	case "bvlshr":
		if t.Args[1].IsConst() && t.Args[1].Val.IsInt64() && t.Args[1].Val.Int64() < int64(w) {
			a := s.ivalOf(t.Args[0], memo)
			k := uint(t.Args[1].Val.Int64())
			r = ival{new(big.Int).Rsh(a.lo, k), new(big.Int).Rsh(a.hi, k)}
		}
	case "bvshl":
		if t.Args[1].IsConst() && t.Args[1].Val.IsInt64() && t.Args[1].Val.Int64() < int64(w) {
			a := s.ivalOf(t.Args[0], memo)
			k := uint(t.Args[1].Val.Int64())
			hi := new(big.Int).Lsh(a.hi, k)
			if hi.Cmp(max) <= 0 {
				r = ival{new(big.Int).Lsh(a.lo, k), hi}
			}
		}
	case "bvor":
		a, b := s.ivalOf(t.Args[0], memo), s.ivalOf(t.Args[1], memo)
		// a|b <= 2^bitlen(max(a.hi,b.hi)) - 1
		m := maxBig(a.hi, b.hi)
		up := new(big.Int).Sub(pow2(m.BitLen()), bigOne)
		r = ival{maxBig(a.lo, b.lo), minBig(up, max)}
	case "concat":
		hi, lo := s.ivalOf(t.Args[0], memo), s.ivalOf(t.Args[1], memo)
		lw := uint(t.Args[1].S.W)
		r = ival{new(big.Int).Add(new(big.Int).Lsh(hi.lo, lw), lo.lo), new(big.Int).Add(new(big.Int).Lsh(hi.hi, lw), lo.hi)}
	}
	memo[t.ID] = r
	return r
}

// byInterval tries to decide a condition from intervals alone.
func (s *State) byInterval(c *Term) (val bool, ok bool) {
	if len(s.Bounds) == 0 {
		return false, false
	}
	if c.Op == "not" {
		v, ok := s.byInterval(c.Args[0])
		return !v, ok
	}
	if len(c.Args) != 2 || c.Args[0].S.K != SBV {
		return false, false
	}
	memo := map[int]ival{}
	a, b := s.ivalOf(c.Args[0], memo), s.ivalOf(c.Args[1], memo)
	w := c.Args[0].S.W
	half := pow2(w - 1)
	nonneg := a.hi.Cmp(half) < 0 && b.hi.Cmp(half) < 0
	op := c.Op
	if len(op) == 5 && op[:3] == "bvs" {
		if !nonneg {
			return false, false
		}
		op = "bvu" + op[3:]
	}
	switch op {
	case "bvult":
		if a.hi.Cmp(b.lo) < 0 {
			return true, true
		}
		if a.lo.Cmp(b.hi) >= 0 {
			return false, true
		}
	case "bvule":
		if a.hi.Cmp(b.lo) <= 0 {
			return true, true
		}
		if a.lo.Cmp(b.hi) > 0 {
			return false, true
		}
	case "bvugt":
		if a.lo.Cmp(b.hi) > 0 {
			return true, true
		}
		if a.hi.Cmp(b.lo) <= 0 {
			return false, true
		}
	case "bvuge":
		if a.lo.Cmp(b.hi) >= 0 {
			return true, true
		}
		if a.hi.Cmp(b.lo) < 0 {
			return false, true
		}
	case "=":
		if a.hi.Cmp(b.lo) < 0 || b.hi.Cmp(a.lo) < 0 {
			return false, true
		}
		if a.lo.Cmp(a.hi) == 0 && b.lo.Cmp(b.hi) == 0 && a.lo.Cmp(b.lo) == 0 {
			return true, true
		}
	}
	return false, false
}
