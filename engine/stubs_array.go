package main

// Stub set "bytearrays": Cadence byte arrays ([UInt8], atree-backed) are replaced by plain
// objects holding their elements, for harnesses of thin wrappers around byte-level functions
// (stdlib RLP). Natively the real ArrayValue and a real interpreter context are used.

import (
	"math/big"

	"golang.org/x/tools/go/ssa"
)

var arrayStubs = map[string]intrinsicFn{}

func (ex *Exec) fakeArrayElems(st *State, v Value) []Value {
	if iv, ok := v.(IfaceV); ok {
		v = iv.V
	}
	p, ok := v.(PtrV)
	if !ok || p.Obj == 0 {
		unsupported("array stub: not a stub array: %s", describe(v))
	}
	a, ok := ex.load(st, p).(ArrayV)
	if !ok {
		unsupported("array stub: object is not a stub array")
	}
	return a.E
}

func init() {
	arrayStubs[interpPkg+"ByteSliceToByteArrayValue"] = func(ex *Exec, st *State, fn *ssa.Function, args []Value, depth int) []Value {
		el := ex.sliceElems(st, args[1].(SliceV))
		return []Value{PtrV{Obj: st.NewObj(ArrayV{E: append([]Value(nil), el...)})}}
	}
	arrayStubs[interpPkg+"ByteArrayValueToByteSlice"] = func(ex *Exec, st *State, fn *ssa.Function, args []Value, depth int) []Value {
		el := ex.fakeArrayElems(st, args[1])
		if len(el) == 0 {
			return []Value{SliceV{}, IfaceV{}}
		}
		return []Value{ex.newSlice(st, append([]Value(nil), el...), len(el), ex.byteTerm(0)), IfaceV{}}
	}
	arrayStubs["(*"+interpPkg+"ArrayValue).Count"] = func(ex *Exec, st *State, fn *ssa.Function, args []Value, depth int) []Value {
		return []Value{ex.goInt(int64(len(ex.fakeArrayElems(st, args[0]))))}
	}
	arrayStubs["(*"+interpPkg+"ArrayValue).Get"] = func(ex *Exec, st *State, fn *ssa.Function, args []Value, depth int) []Value {
		el := ex.fakeArrayElems(st, args[0])
		idx := args[2].(*Term)
		if !idx.IsConst() {
			unsupported("array stub: symbolic index")
		}
		i := int(ex.constInt(idx))
		if i < 0 || i >= len(el) {
			unsupported("array stub: index out of range")
		}
		return []Value{el[i]}
	}
}

// callArrayWithIterator implements interpreter.NewArrayValueWithIterator for the stub set:
// the iterator closure is called until it returns nil.
func (ex *Exec) callArrayWithIterator(st *State, args []Value, depth int) []Outcome {
	var elems []Value
	cur := st
	for n := 0; n < 1000; n++ {
		outs := ex.callValue(cur, args[4], nil, nil, depth+1)
		if len(outs) != 1 || outs[0].Kind != ORet {
			return []Outcome{{St: cur, Kind: OAbort, Abort: "UNSUPPORTED: array stub: iterator forked or failed"}}
		}
		cur = outs[0].St
		v := outs[0].Vals[0]
		if iv, ok := v.(IfaceV); ok && iv.T == nil {
			obj := cur.NewObj(ArrayV{E: elems})
			return []Outcome{{St: cur, Kind: ORet, Vals: []Value{PtrV{Obj: obj}}}}
		}
		elems = append(elems, v)
	}
	return []Outcome{{St: cur, Kind: OAbort, Abort: "UNWIND: array stub: iterator did not end"}}
}

var _ = big.NewInt
