package main

import (
	"fmt"
	"math/big"
	"strings"
)

// convType unifies integer, word and 64-bit fixed-point types for C16.
type convType struct {
	Name   string
	Int    *numType
	Fix    *fixType
	Scale  string // "" for integers, decimal factor for fixed-point
	Fix128 bool   // Fix128 / UFix128 (Signed in F128Signed)
	Signed bool
	Exp    int // decimal scale exponent: 0, 8, 24
}

func convTypes() []convType {
	var r []convType
	for i := range intTypes {
		r = append(r, convType{Name: intTypes[i].Name, Int: &intTypes[i]})
	}
	for i := range wordTypes {
		r = append(r, convType{Name: wordTypes[i].Name, Int: &wordTypes[i]})
	}
	for i := range fix64Types {
		r = append(r, convType{Name: fix64Types[i].Name, Fix: &fix64Types[i], Scale: "100000000", Exp: 8})
	}
	r = append(r, convType{Name: "Fix128", Fix128: true, Signed: true, Scale: "1e24", Exp: 24})
	r = append(r, convType{Name: "UFix128", Fix128: true, Signed: false, Scale: "1e24", Exp: 24})
	return r
}

func (c convType) operand(x, X string) string {
	if c.Fix128 {
		return fmt.Sprintf("\t%shi, %slo := zzNondetUint64(), zzNondetUint64()\n\t%s := %sValue(fix.New%s(%shi, %slo))\n\t%s := zzFix128Big(%shi, %slo, %v)\n", x, x, x, c.Name, c.Name, x, x, X, x, x, c.Signed)
	}
	if c.Int != nil {
		return c.Int.operand(x, X)
	}
	return c.Fix.operand(x, X)
}

func (c convType) resultBig(r string) string {
	if c.Fix128 {
		return fmt.Sprintf("zzFix128Big(uint64(%s.(%sValue).Hi), uint64(%s.(%sValue).Lo), %v)", r, c.Name, r, c.Name, c.Signed)
	}
	if c.Int != nil {
		return c.Int.resultBig(r)
	}
	return c.Fix.resultBig(r)
}

func (c convType) minmax() (string, string) {
	if c.Fix128 {
		if c.Signed {
			return "new(big.Int).Neg(new(big.Int).Lsh(big.NewInt(1), 127))", "new(big.Int).Sub(new(big.Int).Lsh(big.NewInt(1), 127), big.NewInt(1))"
		}
		return "new(big.Int)", "new(big.Int).Sub(new(big.Int).Lsh(big.NewInt(1), 128), big.NewInt(1))"
	}
	if c.Int != nil {
		return c.Int.specMin(), c.Int.specMax()
	}
	return c.Fix.min(), c.Fix.max()
}

// numeric range of a type's raw representation (nil = unbounded)
func rawRange(c convType) (lo, hi *big.Int) {
	if c.Fix128 {
		if c.Signed {
			return new(big.Int).Neg(new(big.Int).Lsh(big.NewInt(1), 127)), new(big.Int).Sub(new(big.Int).Lsh(big.NewInt(1), 127), big.NewInt(1))
		}
		return big.NewInt(0), new(big.Int).Sub(new(big.Int).Lsh(big.NewInt(1), 128), big.NewInt(1))
	}
	if c.Fix != nil {
		if c.Fix.Signed {
			return new(big.Int).Neg(new(big.Int).Lsh(big.NewInt(1), 63)), new(big.Int).Sub(new(big.Int).Lsh(big.NewInt(1), 63), big.NewInt(1))
		}
		return big.NewInt(0), new(big.Int).Sub(new(big.Int).Lsh(big.NewInt(1), 64), big.NewInt(1))
	}
	t := c.Int
	if t.Bits == 0 {
		if t.Signed {
			return nil, nil
		}
		return big.NewInt(0), nil
	}
	if t.Signed {
		return new(big.Int).Neg(new(big.Int).Lsh(big.NewInt(1), uint(t.Bits-1))), new(big.Int).Sub(new(big.Int).Lsh(big.NewInt(1), uint(t.Bits-1)), big.NewInt(1))
	}
	return big.NewInt(0), new(big.Int).Sub(new(big.Int).Lsh(big.NewInt(1), uint(t.Bits)), big.NewInt(1))
}

// canBeOutOfRange: can the exact target raw value of some source value fall outside dst's range?
func canBeOutOfRange(src, dst convType) bool {
	slo, shi := rawRange(src)
	dlo, dhi := rawRange(dst)
	conv := func(v *big.Int) *big.Int {
		if v == nil {
			return nil
		}
		switch {
		case src.Exp == dst.Exp:
			return v
		case src.Exp > dst.Exp:
			return new(big.Int).Quo(v, new(big.Int).Exp(big.NewInt(10), big.NewInt(int64(src.Exp-dst.Exp)), nil))
		default:
			return new(big.Int).Mul(v, new(big.Int).Exp(big.NewInt(10), big.NewInt(int64(dst.Exp-src.Exp)), nil))
		}
	}
	tlo, thi := conv(slo), conv(shi)
	if dlo != nil && (tlo == nil || tlo.Cmp(dlo) < 0) {
		return true
	}
	if dhi != nil && (thi == nil || thi.Cmp(dhi) > 0) {
		return true
	}
	return false
}

func genC16(tier string) (map[string]string, error) {
	var sb strings.Builder
	sb.WriteString(numericHeader)
	sb.WriteString(fix128Helpers)
	sb.WriteString("//verif:assume source values satisfy the representation invariant; gauge nil; Fix128/UFix128 values are arbitrary (Hi,Lo) word pairs; the WithRounding variants are outside\n")
	sb.WriteString("//verif:assume an out-of-range conversion may fail with either OverflowError or UnderflowError (the property does not say which)\n")
	types := convTypes()
	for _, src := range types {
		for _, dst := range types {
			fmt.Fprintf(&sb, "\n//verif:harness property=C16 mode=int stubs=metering\nfunc ZZ_C16_%s_to_%s() {\n", src.Name, dst.Name)
			sb.WriteString(src.operand("x", "A"))
			fmt.Fprintf(&sb, "\tout := zzCatch(func() any { return Convert%s(nil, x) })\n", dst.Name)
			// exact target raw value
			switch {
			case src.Exp == dst.Exp:
				sb.WriteString("\tt := A\n")
			case src.Exp > dst.Exp:
				fmt.Fprintf(&sb, "\tt := new(big.Int).Quo(A, zzPow10Big(%d))\n", src.Exp-dst.Exp)
			default:
				fmt.Fprintf(&sb, "\tt := new(big.Int).Mul(A, zzPow10Big(%d))\n", dst.Exp-src.Exp)
			}
			mn, mx := dst.minmax()
			if dst.Int != nil && dst.Int.Word {
				sb.WriteString("\tzzAssert(\"never-fails\", !out.Panicked)\n\tif out.Panicked {\n\t\treturn\n\t}\n")
				fmt.Fprintf(&sb, "\tw := new(big.Int).Mod(t, new(big.Int).Lsh(big.NewInt(1), %d))\n", dst.Int.Bits)
				fmt.Fprintf(&sb, "\tzzAssert(\"integer-part-mod-2^n\", %s.Cmp(w) == 0)\n}\n", dst.resultBig("out.Value"))
				continue
			}
			var conds []string
			if mx != "" {
				conds = append(conds, fmt.Sprintf("t.Cmp(%s) > 0", mx))
			}
			if mn != "" {
				conds = append(conds, fmt.Sprintf("t.Cmp(%s) < 0", mn))
			}
			if len(conds) > 0 && canBeOutOfRange(src, dst) {
				c := conds[0]
				if len(conds) == 2 {
					c = fmt.Sprintf("zzOr(%s, %s)", conds[0], conds[1])
				}
				fmt.Fprintf(&sb, "\tif %s {\n\t\tzzAssert(\"out-of-range-fails\", out.PanicIsErr(\"OverflowError\") || out.PanicIsErr(\"UnderflowError\"))\n\t\treturn\n\t}\n", c)
			}
			sb.WriteString("\tzzAssert(\"no-failure\", !out.Panicked)\n\tif out.Panicked {\n\t\treturn\n\t}\n")
			fmt.Fprintf(&sb, "\tzzAssert(\"value-preserved\", %s.Cmp(t) == 0)\n}\n", dst.resultBig("out.Value"))
		}
	}
	return map[string]string{"convert": sb.String()}, nil
}

func init() {
	generators["C16"] = append(generators["C16"], genC16)
}

const fix128Helpers = `
func zzPow10Big(n int) *big.Int {
	r := big.NewInt(1)
	for i := 0; i < n; i++ {
		r = new(big.Int).Mul(r, big.NewInt(10))
	}
	return r
}

// exact raw integer (value * 10^24) of a 128-bit fixed-point word pair
func zzFix128Big(hi, lo uint64, signed bool) *big.Int {
	v := new(big.Int).Add(new(big.Int).Lsh(new(big.Int).SetUint64(hi), 64), new(big.Int).SetUint64(lo))
	if signed {
		v = zzIteBig(hi >= 1<<63, new(big.Int).Sub(v, new(big.Int).Lsh(big.NewInt(1), 128)), v)
	}
	return v
}
`
