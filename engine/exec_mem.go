package main

import (
	"fmt"
	"go/token"
	"go/types"
	"math/big"
)

func isBigInt(t types.Type) bool {
	n, ok := t.(*types.Named)
	if !ok {
		return false
	}
	o := n.Obj()
	return o.Pkg() != nil && o.Pkg().Path() == "math/big" && o.Name() == "Int"
}

func (ex *Exec) intZero(k IntKind) *Term { return ex.intConst(bigZero, k) }

var intK = IntKind{64, true}

// zero returns the zero value of a type.
func (ex *Exec) zero(t types.Type) Value {
	if isBigInt(t) {
		return BigV{T: ex.bigConst(bigZero)}
	}
	switch u := t.Underlying().(type) {
	case *types.Basic:
		if k, ok := basicIntKind(u); ok {
			return ex.intZero(k)
		}
		switch u.Kind() {
		case types.Bool, types.UntypedBool:
			return False()
		case types.String, types.UntypedString:
			return StrV{}
		case types.UnsafePointer:
			return PtrV{}
		case types.Float32, types.Float64, types.UntypedFloat:
			return FloatV{Desc: "0"}
		case types.UntypedNil:
			return PtrV{}
		}
		unsupported("zero of basic type %s", u)
	case *types.Pointer:
		return PtrV{}
	case *types.Slice:
		return SliceV{}
	case *types.Map:
		return MapV{}
	case *types.Chan:
		return PtrV{}
	case *types.Interface:
		return IfaceV{}
	case *types.Signature:
		return FuncV{}
	case *types.Struct:
		f := make([]Value, u.NumFields())
		for i := range f {
			f[i] = ex.zero(u.Field(i).Type())
		}
		return StructV{F: f}
	case *types.Array:
		n := int(u.Len())
		if n > 1<<16 {
			unsupported("array too large: %d", n)
		}
		e := make([]Value, n)
		if n > 0 {
			z := ex.zero(u.Elem())
			for i := range e {
				e[i] = z
			}
		}
		return ArrayV{E: e}
	case *types.Tuple:
		tv := make(TupleV, u.Len())
		for i := range tv {
			tv[i] = ex.zero(u.At(i).Type())
		}
		return tv
	}
	unsupported("zero of type %s", t)
	return nil
}

// ---- path navigation

func (ex *Exec) idxEq(sym *Term, i int) *Term {
	return Eq(sym, ex.intConst(big.NewInt(int64(i)), intK))
}

func (ex *Exec) loadPath(root Value, path []PathElem) Value {
	if len(path) == 0 {
		return root
	}
	p := path[0]
	var elems []Value
	switch r := root.(type) {
	case StructV:
		elems = r.F
	case ArrayV:
		elems = r.E
	case UninitV:
		unsupported("read of uninitialised global %s (not in snapshot)", r.Name)
	default:
		unsupported("loadPath into %s", describe(root))
	}
	if p.Sym == nil {
		if p.I < 0 || p.I >= len(elems) {
			unsupported("internal: path index %d out of %d", p.I, len(elems))
		}
		return ex.loadPath(elems[p.I], path[1:])
	}
	n := len(elems)
	if n == 0 {
		unsupported("symbolic index into empty aggregate")
	}
	if len(path) == 1 && n > 8 {
		// lookup table of constants: one comparison per run of equal values (the index is
		// known to be in range: signed compare is fine for 0 <= idx < n)
		allConst := true
		for _, e := range elems {
			if t, ok := e.(*Term); !ok || !t.IsConst() {
				allConst = false
				break
			}
		}
		if allConst {
			res := elems[n-1].(*Term)
			for i := n - 2; i >= 0; i-- {
				if elems[i].(*Term) == elems[i+1].(*Term) {
					continue
				}
				// elems[i] ends a run: idx <= i selects it (runs to the left override later)
				bound := ex.intConst(big.NewInt(int64(i)), intK)
				var c *Term
				if ex.IntMode {
					c = ICmp("<=", p.Sym, bound)
				} else {
					c = BVCmp("bvsle", p.Sym, bound)
				}
				res = Ite(c, elems[i].(*Term), res)
			}
			return res
		}
	}
	res := ex.loadPath(elems[n-1], path[1:])
	for i := n - 2; i >= 0; i-- {
		res = ex.iteValue(ex.idxEq(p.Sym, i), ex.loadPath(elems[i], path[1:]), res)
	}
	return res
}

func (ex *Exec) storePath(root Value, path []PathElem, v Value) Value {
	if len(path) == 0 {
		return v
	}
	p := path[0]
	switch r := root.(type) {
	case StructV:
		nf := append([]Value(nil), r.F...)
		if p.Sym != nil {
			unsupported("symbolic struct field index")
		}
		nf[p.I] = ex.storePath(nf[p.I], path[1:], v)
		return StructV{F: nf}
	case ArrayV:
		ne := append([]Value(nil), r.E...)
		if p.Sym == nil {
			ne[p.I] = ex.storePath(ne[p.I], path[1:], v)
		} else {
			for i := range ne {
				ne[i] = ex.iteValue(ex.idxEq(p.Sym, i), ex.storePath(ne[i], path[1:], v), ne[i])
			}
		}
		return ArrayV{E: ne}
	case UninitV:
		unsupported("partial store into uninitialised global %s", r.Name)
	}
	unsupported("storePath into %s", describe(root))
	return nil
}

func (ex *Exec) load(st *State, p PtrV) Value {
	if p.Obj == 0 {
		panic(goPanic{Val: ex.runtimeError("nil pointer dereference")})
	}
	root, ok := st.Heap[p.Obj]
	if !ok {
		unsupported("internal: dangling object %d", p.Obj)
	}
	v := ex.loadPath(root, p.Path)
	if u, ok := v.(UninitV); ok {
		unsupported("read of uninitialised global %s (not in snapshot)", u.Name)
	}
	return v
}

func (ex *Exec) store(st *State, p PtrV, v Value) {
	if p.Obj == 0 {
		panic(goPanic{Val: ex.runtimeError("nil pointer dereference")})
	}
	root := st.Heap[p.Obj]
	st.Heap[p.Obj] = ex.storePath(root, p.Path, v)
}

func extendPath(path []PathElem, e PathElem) []PathElem {
	n := make([]PathElem, len(path)+1)
	copy(n, path)
	n[len(path)] = e
	return n
}

// ---- value merging and equality

func (ex *Exec) iteValue(c *Term, a, b Value) Value {
	if v, ok := c.BoolVal(); ok {
		if v {
			return a
		}
		return b
	}
	if ex.curSt != nil {
		if v, ok := ex.curSt.Known[c.ID]; ok {
			if v {
				return a
			}
			return b
		}
		if v, ok := ex.curSt.Known[Not(c).ID]; ok {
			if !v {
				return a
			}
			return b
		}
	}
	switch x := a.(type) {
	case *Term:
		if y, ok := b.(*Term); ok {
			return Ite(c, x, y)
		}
	case StructV:
		if y, ok := b.(StructV); ok && len(x.F) == len(y.F) {
			f := make([]Value, len(x.F))
			for i := range f {
				f[i] = ex.iteValue(c, x.F[i], y.F[i])
			}
			return StructV{F: f}
		}
	case ArrayV:
		if y, ok := b.(ArrayV); ok && len(x.E) == len(y.E) {
			f := make([]Value, len(x.E))
			for i := range f {
				f[i] = ex.iteValue(c, x.E[i], y.E[i])
			}
			return ArrayV{E: f}
		}
	case BigV:
		if y, ok := b.(BigV); ok {
			return BigV{T: Ite(c, x.T, y.T)}
		}
	case StrV:
		if y, ok := b.(StrV); ok && x.Len() == y.Len() {
			xb, yb := ex.strBytes(x), ex.strBytes(y)
			r := make([]*Term, len(xb))
			for i := range r {
				r[i] = Ite(c, xb[i], yb[i])
			}
			return ex.mkStr(r)
		}
	case TupleV:
		if y, ok := b.(TupleV); ok && len(x) == len(y) {
			f := make(TupleV, len(x))
			for i := range f {
				f[i] = ex.iteValue(c, x[i], y[i])
			}
			return f
		}
	case IfaceV:
		if y, ok := b.(IfaceV); ok {
			if x.T == nil && y.T == nil {
				return x
			}
			if x.T != nil && y.T != nil && types.Identical(x.T, y.T) {
				return IfaceV{T: x.T, V: ex.iteValue(c, x.V, y.V)}
			}
		}
	}
	if e, ok := ex.concreteEq(a, b); ok && e {
		return a
	}
	// cannot merge: decide the condition instead (forks)
	panic(needDecide{c})
}

// needDecide is converted by the instruction loop into a decide() on the condition followed by a
// retry of the instruction.
type needDecide struct{ C *Term }

// concreteEq compares two values when that can be decided syntactically.
func (ex *Exec) concreteEq(a, b Value) (eq bool, ok bool) {
	t := ex.valueEq(a, b)
	if t == nil {
		return false, false
	}
	v, ok := t.BoolVal()
	return v, ok
}

func (ex *Exec) strBytes(s StrV) []*Term {
	if s.B != nil {
		return s.B
	}
	r := make([]*Term, len(s.S))
	for i := 0; i < len(s.S); i++ {
		r[i] = ex.intConst(big.NewInt(int64(s.S[i])), IntKind{8, false})
	}
	return r
}

func (ex *Exec) mkStr(b []*Term) StrV {
	all := true
	for _, t := range b {
		if !t.IsConst() {
			all = false
			break
		}
	}
	if all {
		bs := make([]byte, len(b))
		for i, t := range b {
			bs[i] = byte(t.Val.Uint64())
		}
		return StrV{S: string(bs)}
	}
	if len(b) == 0 {
		return StrV{}
	}
	return StrV{B: b}
}

// valueEq returns a Bool term for a == b (Go semantics), or nil if unsupported.
func (ex *Exec) valueEq(a, b Value) *Term {
	switch x := a.(type) {
	case *Term:
		if y, ok := b.(*Term); ok && x.S == y.S {
			return Eq(x, y)
		}
	case StructV:
		if y, ok := b.(StructV); ok && len(x.F) == len(y.F) {
			r := True()
			for i := range x.F {
				e := ex.valueEq(x.F[i], y.F[i])
				if e == nil {
					return nil
				}
				r = And(r, e)
			}
			return r
		}
	case ArrayV:
		if y, ok := b.(ArrayV); ok && len(x.E) == len(y.E) {
			r := True()
			for i := range x.E {
				e := ex.valueEq(x.E[i], y.E[i])
				if e == nil {
					return nil
				}
				r = And(r, e)
			}
			return r
		}
	case PtrV:
		if y, ok := b.(PtrV); ok {
			if x.Obj != y.Obj || len(x.Path) != len(y.Path) {
				return False()
			}
			r := True()
			for i := range x.Path {
				p, q := x.Path[i], y.Path[i]
				if p.Sym == nil && q.Sym == nil {
					if p.I != q.I {
						return False()
					}
					continue
				}
				ps, qs := p.Sym, q.Sym
				if ps == nil {
					ps = ex.intConst(big.NewInt(int64(p.I)), intK)
				}
				if qs == nil {
					qs = ex.intConst(big.NewInt(int64(q.I)), intK)
				}
				r = And(r, Eq(ps, qs))
			}
			return r
		}
	case StrV:
		if y, ok := b.(StrV); ok {
			if x.Len() != y.Len() {
				return False()
			}
			if x.B == nil && y.B == nil {
				return BoolC(x.S == y.S)
			}
			xb, yb := ex.strBytes(x), ex.strBytes(y)
			r := True()
			for i := range xb {
				r = And(r, Eq(xb[i], yb[i]))
			}
			return r
		}
	case IfaceV:
		if y, ok := b.(IfaceV); ok {
			if x.T == nil || y.T == nil {
				return BoolC(x.T == nil && y.T == nil)
			}
			if !types.Identical(x.T, y.T) {
				return False()
			}
			return ex.valueEq(x.V, y.V)
		}
	case SliceV:
		// only comparison with nil is legal in Go
		if y, ok := b.(SliceV); ok {
			if y.Obj == 0 && y.Len == 0 {
				return BoolC(x.Obj == 0)
			}
			if x.Obj == 0 && x.Len == 0 {
				return BoolC(y.Obj == 0)
			}
		}
	case MapV:
		if y, ok := b.(MapV); ok {
			return BoolC(x.Obj == y.Obj)
		}
	case FuncV:
		if y, ok := b.(FuncV); ok {
			if y.Fn == nil && y.Intr == "" {
				return BoolC(x.Fn == nil && x.Intr == "")
			}
			if x.Fn == nil && x.Intr == "" {
				return BoolC(y.Fn == nil && y.Intr == "")
			}
		}
	case BigV:
		if y, ok := b.(BigV); ok {
			return Eq(x.T, y.T)
		}
	case OpaqueV:
		if y, ok := b.(OpaqueV); ok {
			return BoolC(x.Desc == y.Desc)
		}
	case TupleV:
		if y, ok := b.(TupleV); ok && len(x) == len(y) {
			r := True()
			for i := range x {
				e := ex.valueEq(x[i], y[i])
				if e == nil {
					return nil
				}
				r = And(r, e)
			}
			return r
		}
	}
	return nil
}

// ---- slices

func (ex *Exec) sliceElemPtr(s SliceV, i int) PtrV {
	return PtrV{Obj: s.Obj, Path: extendPath(s.Path, PathElem{I: s.Off + i})}
}

func (ex *Exec) sliceElems(st *State, s SliceV) []Value {
	if s.SymLen != nil {
		unsupported("element access on abstract (length-only) slice")
	}
	if s.Len == 0 {
		return nil
	}
	arr := ex.loadPath(st.Heap[s.Obj], s.Path).(ArrayV)
	return arr.E[s.Off : s.Off+s.Len]
}

func (ex *Exec) newSlice(st *State, elems []Value, capacity int, zero Value) SliceV {
	if capacity < len(elems) {
		capacity = len(elems)
	}
	e := make([]Value, capacity)
	copy(e, elems)
	for i := len(elems); i < capacity; i++ {
		e[i] = zero
	}
	obj := st.NewObj(ArrayV{E: e})
	return SliceV{Obj: obj, Off: 0, Len: len(elems), Cap: capacity}
}

func (ex *Exec) byteTerm(b byte) *Term {
	return ex.intConst(big.NewInt(int64(b)), IntKind{8, false})
}

// binop on bools
func boolOp(op token.Token, x, y *Term) *Term {
	switch op {
	case token.EQL:
		return Eq(x, y)
	case token.NEQ:
		return Not(Eq(x, y))
	case token.AND, token.LAND:
		return And(x, y)
	case token.OR, token.LOR:
		return Or(x, y)
	case token.XOR:
		return Not(Eq(x, y))
	}
	panic(fmt.Sprintf("boolOp %v", op))
}
