package main

import (
	"fmt"
	"go/types"
	"strings"

	"golang.org/x/tools/go/ssa"
)

// Value is one of: *Term (scalar), StructV, ArrayV, PtrV, SliceV, StrV, IfaceV, FuncV, MapV,
// TupleV, BigV, OpaqueV, UninitV, FloatV.
type Value interface{}

type StructV struct{ F []Value }
type ArrayV struct{ E []Value }

type PathElem struct {
	I   int
	Sym *Term // non-nil: symbolic index (in the int/bv sort of "int"), ranging over [0,N)
	N   int
}

type PtrV struct {
	Obj  int // 0 = nil
	Path []PathElem
}

type SliceV struct {
	Obj           int // array object; 0 = nil slice
	Path          []PathElem
	Off, Len, Cap int
	SymLen        *Term // non-nil: abstract slice of which only len() is known (as this term)
}

type StrV struct {
	S   string  // concrete content when B == nil
	B   []*Term // symbolic bytes (BV8 in bv mode, Int in int mode)
}

type IfaceV struct {
	T types.Type // nil = nil interface
	V Value
}

type FuncV struct {
	Fn    *ssa.Function
	Bound []Value
	Intr  string // builtin/intrinsic referenced as value
}

type MapV struct{ Obj int }

type MapObj struct {
	Keys []Value
	Vals []Value
}

type TupleV []Value

// BigV is the content of a math/big.Int object: one mathematical integer
// (Int sort in int-mode, signed bit-vector of width BigW in bv-mode).
type BigV struct{ T *Term }

type OpaqueV struct{ Desc string }
type UninitV struct{ Name string }

// FloatV: floats are only carried around opaquely (a fresh real in [0,1) from rand.Float32 is
// modelled in intervalst harnesses via a dedicated intrinsic).
type FloatV struct{ Desc string }

func (p PtrV) IsNil() bool { return p.Obj == 0 }

func (s StrV) Len() int {
	if s.B != nil {
		return len(s.B)
	}
	return len(s.S)
}

func (s StrV) Concrete() (string, bool) {
	if s.B == nil {
		return s.S, true
	}
	bs := make([]byte, len(s.B))
	for i, t := range s.B {
		if !t.IsConst() {
			return "", false
		}
		bs[i] = byte(t.Val.Uint64())
	}
	return string(bs), true
}

func describe(v Value) string {
	switch x := v.(type) {
	case nil:
		return "<nil>"
	case *Term:
		return x.String()
	case StructV:
		var p []string
		for _, f := range x.F {
			p = append(p, describe(f))
		}
		return "{" + strings.Join(p, ",") + "}"
	case ArrayV:
		var p []string
		for i, f := range x.E {
			if i > 8 {
				p = append(p, "...")
				break
			}
			p = append(p, describe(f))
		}
		return "[" + strings.Join(p, ",") + "]"
	case PtrV:
		return fmt.Sprintf("&obj%d%v", x.Obj, x.Path)
	case SliceV:
		return fmt.Sprintf("slice(obj%d,%d,%d,%d)", x.Obj, x.Off, x.Len, x.Cap)
	case StrV:
		if s, ok := x.Concrete(); ok {
			return fmt.Sprintf("%q", s)
		}
		return fmt.Sprintf("str[%d]", len(x.B))
	case IfaceV:
		if x.T == nil {
			return "iface(nil)"
		}
		return fmt.Sprintf("iface(%s:%s)", x.T, describe(x.V))
	case FuncV:
		if x.Fn != nil {
			return "func " + x.Fn.String()
		}
		return "func(nil)"
	case MapV:
		return fmt.Sprintf("map(obj%d)", x.Obj)
	case TupleV:
		var p []string
		for _, f := range x {
			p = append(p, describe(f))
		}
		return "(" + strings.Join(p, ",") + ")"
	case BigV:
		return "big(" + x.T.String() + ")"
	case OpaqueV:
		return "opaque(" + x.Desc + ")"
	case UninitV:
		return "uninit(" + x.Name + ")"
	}
	return fmt.Sprintf("%T", v)
}
