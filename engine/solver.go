package main

// Persistent SMT solver processes (z3 -in, z3-new -in, cvc5 --incremental) and a portfolio.

import (
	"bufio"
	"fmt"
	"io"
	"math/big"
	"os/exec"
	"strings"
	"sync"
	"time"
)

type Result int

const (
	Unknown Result = iota
	Sat
	Unsat
)

func (r Result) String() string {
	switch r {
	case Sat:
		return "sat"
	case Unsat:
		return "unsat"
	}
	return "unknown"
}

type Solver struct {
	Name    string
	argv    []string
	cmd     *exec.Cmd
	in      io.WriteCloser
	out     *bufio.Reader
	defined map[int]bool
	Queries int
	Time    time.Duration
	lines   chan string
	dead    bool
	abort   bool
	amu     sync.Mutex
	Log     io.Writer
}

// Abort kills the process from another goroutine; the next Check restarts it.
func (s *Solver) Abort() {
	s.amu.Lock()
	s.abort = true
	s.amu.Unlock()
	if s.cmd != nil && s.cmd.Process != nil {
		s.cmd.Process.Kill()
	}
}

func solverArgv(name string) []string {
	switch name {
	case "z3":
		return []string{"z3", "-in"}
	case "z3-new":
		return []string{"z3-new", "-in"}
	case "cvc5":
		return []string{"cvc5", "--incremental", "--lang=smt2", "--produce-models"}
	}
	panic("unknown solver " + name)
}

func NewSolver(name string) *Solver {
	s := &Solver{Name: name, argv: solverArgv(name)}
	s.start()
	return s
}

func (s *Solver) start() {
	s.cmd = exec.Command(s.argv[0], s.argv[1:]...)
	in, _ := s.cmd.StdinPipe()
	out, _ := s.cmd.StdoutPipe()
	s.cmd.Stderr = nil
	if err := s.cmd.Start(); err != nil {
		panic(err)
	}
	s.in = in
	s.out = bufio.NewReaderSize(out, 1<<20)
	s.defined = map[int]bool{}
	s.dead = false
	s.lines = make(chan string, 64)
	go func(r *bufio.Reader, ch chan string) {
		for {
			l, err := r.ReadString('\n')
			if l != "" {
				ch <- strings.TrimSpace(l)
			}
			if err != nil {
				close(ch)
				return
			}
		}
	}(s.out, s.lines)
	if s.Name == "cvc5" {
		s.send("(set-logic ALL)\n")
	}
	s.send("(set-option :produce-models true)\n")
}

func (s *Solver) send(txt string) {
	if s.Log != nil {
		io.WriteString(s.Log, txt)
	}
	io.WriteString(s.in, txt)
}

func (s *Solver) Kill() {
	if s.cmd != nil && s.cmd.Process != nil {
		s.cmd.Process.Kill()
		s.cmd.Wait()
	}
	s.dead = true
}

func (s *Solver) Restart() {
	s.Kill()
	s.start()
}

// readLine waits for one line with timeout; ok=false on timeout/closed.
func (s *Solver) readLine(d time.Duration) (string, bool) {
	select {
	case l, ok := <-s.lines:
		if !ok {
			return "", false
		}
		return l, true
	case <-time.After(d):
		return "", false
	}
}

// Check decides satisfiability of the conjunction of assertions. If wantModel != nil and the
// result is sat, values for those vars are returned.
func (s *Solver) Check(assertions []*Term, timeout time.Duration, wantModel []*Term) (Result, map[string]*big.Int, string) {
	t0 := time.Now()
	defer func() { s.Time += time.Since(t0); s.Queries++ }()
	s.amu.Lock()
	ab := s.abort
	s.abort = false
	s.amu.Unlock()
	if ab {
		s.Restart()
	} else if s.dead {
		s.start()
	}
	var sb strings.Builder
	Definitions(assertions, s.defined, &sb)
	if wantModel != nil {
		Definitions(wantModel, s.defined, &sb)
	}
	sb.WriteString("(push 1)\n")
	for _, a := range assertions {
		fmt.Fprintf(&sb, "(assert %s)\n", smtName(a))
	}
	ms := int(timeout / time.Millisecond)
	if strings.HasPrefix(s.Name, "z3") {
		fmt.Fprintf(&sb, "(set-option :timeout %d)\n", ms)
	}
	sb.WriteString("(check-sat)\n")
	s.send(sb.String())
	res := Unknown
	errtxt := ""
	// read until sat/unsat/unknown; collect errors
	deadline := timeout + 2*time.Second
	for {
		l, ok := s.readLine(deadline)
		if !ok {
			// timeout or died: restart
			s.Restart()
			return Unknown, nil, "timeout"
		}
		if strings.HasPrefix(l, "(error") {
			errtxt = l
			continue
		}
		if l == "sat" {
			res = Sat
			break
		}
		if l == "unsat" {
			res = Unsat
			break
		}
		if l == "unknown" || l == "timeout" {
			res = Unknown
			break
		}
		// continuation of a multi-line error, ignore
	}
	if errtxt != "" {
		s.Restart()
		return Unknown, nil, errtxt
	}
	var model map[string]*big.Int
	if res == Sat && len(wantModel) > 0 {
		var q strings.Builder
		q.WriteString("(get-value (")
		for _, v := range wantModel {
			q.WriteString(smtName(v))
			q.WriteByte(' ')
		}
		q.WriteString("))\n(echo \"<<done>>\")\n")
		s.send(q.String())
		var resp strings.Builder
		for {
			l, ok := s.readLine(10 * time.Second)
			if !ok {
				s.Restart()
				return res, nil, "model-timeout"
			}
			if strings.Contains(l, "<<done>>") {
				break
			}
			resp.WriteString(l)
			resp.WriteByte(' ')
		}
		model = parseModel(resp.String(), wantModel)
	}
	s.send("(pop 1)\n")
	return res, model, ""
}

// ---- s-expression parsing of get-value output

type sexp struct {
	atom string
	list []*sexp
}

func parseSexp(s string, i int) (*sexp, int) {
	for i < len(s) && (s[i] == ' ' || s[i] == '\n' || s[i] == '\t' || s[i] == '\r') {
		i++
	}
	if i >= len(s) {
		return nil, i
	}
	if s[i] == '(' {
		i++
		e := &sexp{}
		for {
			for i < len(s) && (s[i] == ' ' || s[i] == '\n' || s[i] == '\t' || s[i] == '\r') {
				i++
			}
			if i >= len(s) {
				return e, i
			}
			if s[i] == ')' {
				return e, i + 1
			}
			var c *sexp
			c, i = parseSexp(s, i)
			if c == nil {
				return e, i
			}
			e.list = append(e.list, c)
		}
	}
	if s[i] == '|' {
		j := strings.IndexByte(s[i+1:], '|')
		return &sexp{atom: s[i : i+j+2]}, i + j + 2
	}
	j := i
	for j < len(s) && s[j] != ' ' && s[j] != ')' && s[j] != '(' && s[j] != '\n' {
		j++
	}
	return &sexp{atom: s[i:j]}, j
}

func sexpValue(e *sexp) *big.Int {
	if e == nil {
		return nil
	}
	if e.list == nil {
		a := e.atom
		switch {
		case a == "true":
			return big.NewInt(1)
		case a == "false":
			return big.NewInt(0)
		case strings.HasPrefix(a, "#x"):
			v, _ := new(big.Int).SetString(a[2:], 16)
			return v
		case strings.HasPrefix(a, "#b"):
			v, _ := new(big.Int).SetString(a[2:], 2)
			return v
		default:
			v, ok := new(big.Int).SetString(a, 10)
			if ok {
				return v
			}
			return nil
		}
	}
	// (- n) or (_ bvN w)
	if len(e.list) == 2 && e.list[0].atom == "-" {
		v := sexpValue(e.list[1])
		if v == nil {
			return nil
		}
		return new(big.Int).Neg(v)
	}
	if len(e.list) == 3 && e.list[0].atom == "_" && strings.HasPrefix(e.list[1].atom, "bv") {
		v, _ := new(big.Int).SetString(e.list[1].atom[2:], 10)
		return v
	}
	return nil
}

func parseModel(resp string, want []*Term) map[string]*big.Int {
	e, _ := parseSexp(resp, 0)
	m := map[string]*big.Int{}
	if e == nil {
		return m
	}
	for i, pair := range e.list {
		if i >= len(want) || len(pair.list) != 2 {
			continue
		}
		v := sexpValue(pair.list[1])
		if v == nil {
			continue
		}
		w := want[i]
		key := w.Name
		if w.Op != "var" {
			key = fmt.Sprintf("t%d", w.ID)
		}
		m[key] = v
	}
	return m
}

// ---- portfolio

type Portfolio struct {
	names   []string
	solvers []*Solver
	mu      sync.Mutex
	Wins    map[string]int
}

func NewPortfolio(names []string) *Portfolio {
	p := &Portfolio{names: names, Wins: map[string]int{}}
	for _, n := range names {
		p.solvers = append(p.solvers, NewSolver(n))
	}
	return p
}

func (p *Portfolio) Close() {
	for _, s := range p.solvers {
		s.Kill()
	}
}

type pfAnswer struct {
	idx   int
	res   Result
	model map[string]*big.Int
	err   string
}

// Check runs all solvers in parallel; the first definite answer wins; losers are restarted.
func (p *Portfolio) Check(assertions []*Term, timeout time.Duration, wantModel []*Term) (Result, map[string]*big.Int, string, string) {
	// fast path: the solver that has won most often so far, alone, with a short cap
	lead := 0
	for i, n := range p.names {
		if p.Wins[n] > p.Wins[p.names[lead]] {
			lead = i
		}
	}
	fast := 3 * time.Second
	if timeout < fast {
		fast = timeout
	}
	if r, m, e := p.solvers[lead].Check(assertions, fast, wantModel); r != Unknown && e == "" {
		p.Wins[p.names[lead]]++
		return r, m, p.names[lead], ""
	}
	return p.CheckAll(assertions, timeout, wantModel)
}

// CheckAll races all solvers (no head start).
func (p *Portfolio) CheckAll(assertions []*Term, timeout time.Duration, wantModel []*Term) (Result, map[string]*big.Int, string, string) {
	ch := make(chan pfAnswer, len(p.solvers))
	for i, s := range p.solvers {
		go func(i int, s *Solver) {
			r, m, e := s.Check(assertions, timeout, wantModel)
			ch <- pfAnswer{i, r, m, e}
		}(i, s)
	}
	got := 0
	var errs []string
	answered := make([]bool, len(p.solvers))
	var win *pfAnswer
	for got < len(p.solvers) {
		a := <-ch
		got++
		answered[a.idx] = true
		if a.err != "" {
			errs = append(errs, p.names[a.idx]+": "+a.err)
		}
		if a.res != Unknown && a.err == "" {
			win = &a
			break
		}
	}
	if win == nil {
		return Unknown, nil, "", strings.Join(errs, "; ")
	}
	// kill the others that have not answered (they are blocked in Check; killing makes them return)
	for i, s := range p.solvers {
		if !answered[i] {
			s.Abort()
		}
	}
	// drain
	for got < len(p.solvers) {
		<-ch
		got++
	}
	p.Wins[p.names[win.idx]]++
	return win.res, win.model, p.names[win.idx], strings.Join(errs, "; ")
}
