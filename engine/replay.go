package main

import (
	"encoding/json"
	"fmt"
	"os"
	"strings"
)

// replayFile re-runs a recorded counterexample natively against the current /repo tree.
func replayFile(path string) int {
	data, err := os.ReadFile(path)
	if err != nil {
		fmt.Println("cannot read replay file:", err)
		return 2
	}
	var rp struct {
		Property string   `json:"property"`
		Harness  string   `json:"harness"`
		PkgDir   string   `json:"pkg_dir"`
		Label    string   `json:"label"`
		Inputs   []string `json:"inputs"`
	}
	if err := json.Unmarshal(data, &rp); err != nil {
		fmt.Println("bad replay file:", err)
		return 2
	}
	plan, err := buildPlan(rp.Property, "thorough")
	if err != nil {
		fmt.Println("plan:", err)
		return 2
	}
	ws := NewWorkspace()
	defer ws.Cleanup()
	for dir, files := range plan.Files {
		var names []string
		for _, f := range files {
			for _, sp := range parseSpecs(dir, f.Content) {
				names = append(names, sp.Name)
			}
		}
		ws.AddHarnessPkg(dir, files, names)
	}
	// the runner references zzDumpAll: provide an empty one
	for _, d := range ws.PkgDirs {
		ws.add(d, "zz_verif_dump_test.go", "package "+ws.pkgName(d)+"\n\nfunc zzDumpAll(out map[string]any) {}\n")
	}
	res, err := ws.RunVectors(rp.PkgDir, []Vector{{H: rp.Harness, In: rp.Inputs}}, "replay")
	if err != nil {
		fmt.Println("native run failed:", err)
		return 2
	}
	nr := res[0]
	fmt.Printf("harness=%s inputs=%v\nnative: panic=%q asserts=%+v\n", rp.Harness, rp.Inputs, nr.Panic, nr.Asserts)
	failed := false
	if strings.HasPrefix(rp.Label, "zz:uncaught-panic") {
		failed = nr.Panic != ""
	}
	for _, a := range nr.Asserts {
		if a.Label == rp.Label && !a.OK {
			failed = true
		}
	}
	if failed {
		fmt.Printf("VIOLATION property=%s replay=%s\n", rp.Property, path)
		return 1
	}
	fmt.Println("does not reproduce on the current tree")
	return 0
}
