package main

// sync/atomic on a sequential executor: plain loads, stores and read-modify-writes.  With these,
// sync.Mutex and sync.Once run from source.

import (
	"go/token"
	"go/types"
	"strings"

	"golang.org/x/tools/go/ssa"
)

func init() {
	for _, suf := range []string{"Int32", "Int64", "Uint32", "Uint64", "Uintptr", "Pointer"} {
		suf := suf
		intrinsics["sync/atomic.Load"+suf] = func(ex *Exec, st *State, fn *ssa.Function, args []Value, depth int) []Value {
			return []Value{ex.load(st, args[0].(PtrV))}
		}
		intrinsics["sync/atomic.Store"+suf] = func(ex *Exec, st *State, fn *ssa.Function, args []Value, depth int) []Value {
			ex.store(st, args[0].(PtrV), args[1])
			return nil
		}
		intrinsics["sync/atomic.Swap"+suf] = func(ex *Exec, st *State, fn *ssa.Function, args []Value, depth int) []Value {
			old := ex.load(st, args[0].(PtrV))
			ex.store(st, args[0].(PtrV), args[1])
			return []Value{old}
		}
		if suf == "Pointer" {
			continue
		}
		intrinsics["sync/atomic.CompareAndSwap"+suf] = func(ex *Exec, st *State, fn *ssa.Function, args []Value, depth int) []Value {
			cur := ex.load(st, args[0].(PtrV)).(*Term)
			if ex.decide(st, Eq(cur, args[1].(*Term))) {
				ex.store(st, args[0].(PtrV), args[2])
				return []Value{True()}
			}
			return []Value{False()}
		}
		intrinsics["sync/atomic.Add"+suf] = func(ex *Exec, st *State, fn *ssa.Function, args []Value, depth int) []Value {
			cur := ex.load(st, args[0].(PtrV)).(*Term)
			t := fn.Signature.Params().At(1).Type()
			k, ok := basicIntKind(t)
			if !ok {
				unsupported("atomic.Add on %s", t)
			}
			n := ex.arith(token.ADD, cur, args[1].(*Term), k)
			ex.store(st, args[0].(PtrV), n)
			return []Value{n}
		}
	}
	// runtime hooks of sync.Mutex's slow path are never reached on a sequential executor
	_ = types.Typ
	_ = strings.HasPrefix
}

func init() {
	// func NoEscape(p unsafe.Pointer) unsafe.Pointer { x := uintptr(p); return unsafe.Pointer(x ^ 0) }
	intrinsics["internal/abi.NoEscape"] = func(ex *Exec, st *State, fn *ssa.Function, args []Value, depth int) []Value {
		return []Value{args[0]}
	}
}

func init() {
	// func (b *Builder) String() string { return unsafe.String(unsafe.SliceData(b.buf), len(b.buf)) }
	intrinsics["(*strings.Builder).String"] = func(ex *Exec, st *State, fn *ssa.Function, args []Value, depth int) []Value {
		sv, ok := ex.load(st, args[0].(PtrV)).(StructV)
		if !ok || len(sv.F) != 2 {
			unsupported("strings.Builder layout")
		}
		buf, ok := sv.F[1].(SliceV)
		if !ok {
			unsupported("strings.Builder.buf")
		}
		el := ex.sliceElems(st, buf)
		bs := make([]*Term, len(el))
		for i, e := range el {
			bs[i] = e.(*Term)
		}
		return []Value{ex.mkStr(bs)}
	}
}
