package main

import (
	"fmt"
	"os"
	"os/exec"
	"strings"
	"syscall"
)

// Every check compiles the package under test with a different overlay, so the Go build cache
// grows by a few hundred MB per run (and is only trimmed by age). When the disk holding it
// runs low the cache is cleared; the next build is slower, nothing else changes.
func trimGoCacheIfDiskLow() {
	cmd := exec.Command("go", "env", "GOCACHE")
	cmd.Dir = repoRoot
	cmd.Env = goEnv()
	out, err := cmd.Output()
	if err != nil {
		return
	}
	dir := strings.TrimSpace(string(out))
	var st syscall.Statfs_t
	if syscall.Statfs(dir, &st) != nil {
		return
	}
	freeGB := float64(st.Bavail) * float64(st.Bsize) / (1 << 30)
	if freeGB >= 30 {
		return
	}
	fmt.Printf("note: %.0f GB free on the disk holding the Go build cache; clearing the cache\n", freeGB)
	c := exec.Command("go", "clean", "-cache")
	c.Dir = repoRoot
	c.Env = goEnv()
	c.Stdout, c.Stderr = os.Stdout, os.Stderr
	c.Run()
}
