package main

import (
	"fmt"
	"strings"
)

func genC17Bytes(tier string) (map[string]string, error) {
	var sb strings.Builder
	sb.WriteString(numericHeader)
	sb.WriteString(fix128Helpers)
	sb.WriteString("//verif:assume bytes: values satisfy the representation invariant; Int/UInt bounded by |x| < 2^128; the array-value layer and the length gate of the native function wrapper are outside (the gate's comparison is covered by the length assertions)\n")
	types := convTypes()
	for _, c := range types {
		size := 8
		w := 192
		if c.Fix128 {
			size = 16
		}
		if c.Int != nil {
			size = c.Int.Bits / 8
			switch c.Int.Bits {
			case 128, 0:
				w = 192
			case 256:
				w = 320
			}
		}
		attrs := fmt.Sprintf("property=C17 mode=bv bigw=%d stubs=metering,nosum unwind=80", w)
		fmt.Fprintf(&sb, "\n//verif:harness %s\nfunc ZZ_C17_Bytes_%s_RoundTrip() {\n", attrs, c.Name)
		sb.WriteString(c.operand("x", "A"))
		if c.Int != nil && c.Int.Bits == 0 {
			sb.WriteString("\tzzAssume(A.CmpAbs(new(big.Int).Lsh(big.NewInt(1), 128)) < 0)\n")
		}
		sb.WriteString("\tout := zzCatch(func() any {\n\t\tb := x.ToBigEndianBytes()\n")
		if size > 0 {
			fmt.Fprintf(&sb, "\t\tzzAssert(\"length-within-type-size\", len(b) <= %d)\n", size)
		}
		fmt.Fprintf(&sb, "\t\treturn New%sValueFromBigEndianBytes(nil, b)\n\t})\n", c.Name)
		sb.WriteString("\tzzAssert(\"no-crash\", !out.Panicked)\n\tif out.Panicked {\n\t\treturn\n\t}\n")
		fmt.Fprintf(&sb, "\tzzAssert(\"round-trip\", %s.Cmp(A) == 0)\n}\n", c.resultBig("out.Value"))
		// arbitrary bytes of every allowed length
		maxLen := size
		if size == 0 {
			maxLen = 17
		}
		fmt.Fprintf(&sb, "\n//verif:harness %s lens=0..%d\nfunc ZZ_C17_Bytes_%s_Arbitrary_LLEN() {\n", attrs, maxLen, c.Name)
		fmt.Fprintf(&sb, "\tb := zzNondetBytes(LEN)\n\tout := zzCatch(func() any { return New%sValueFromBigEndianBytes(nil, b) })\n", c.Name)
		sb.WriteString("\tzzAssert(\"no-crash\", !out.Panicked)\n\tif out.Panicked {\n\t\treturn\n\t}\n")
		fmt.Fprintf(&sb, "\tR := %s\n\t_ = R\n", c.resultBig("out.Value"))
		mn, mx := c.minmax()
		cond := "true"
		if mn != "" {
			cond = fmt.Sprintf("R.Cmp(%s) >= 0", mn)
		}
		if mx != "" {
			cond = fmt.Sprintf("zzAnd(%s, R.Cmp(%s) <= 0)", cond, mx)
		}
		fmt.Fprintf(&sb, "\tzzAssert(\"result-in-range\", %s)\n}\n", cond)
	}
	return map[string]string{"bytes": sb.String()}, nil
}

func init() {
	generators["C17"] = append(generators["C17"], genC17Bytes)
}
