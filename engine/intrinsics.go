package main

import (
	"regexp"
	"math/big"
	"strings"

	"golang.org/x/tools/go/ssa"
)

type intrinsicFn func(ex *Exec, st *State, fn *ssa.Function, args []Value, depth int) []Value

var intrinsics = map[string]intrinsicFn{}

// summaryIntrinsics: exact summaries of repo functions, disabled by stubs=nosum (see summaries.go)
var summaryIntrinsics = map[string]intrinsicFn{}

// estimators whose results only flow to the (nil) gauge in arithmetic harnesses; subject of C32
var meteringStubRe = regexp.MustCompile(`^github.com/onflow/cadence/common\.(New(Plus|Minus|Mul|Mod|Div|BitwiseOr|BitwiseXor|BitwiseAnd|BitwiseLeftShift|BitwiseRightShift|Negate)BigIntMemoryUsage|NewBigIntsWordSliceOperation|OverEstimateBigIntFromString)$`)

func (ex *Exec) noteStub(name string) {
	if ex.Stats.Stubs == nil {
		ex.Stats.Stubs = map[string]int{}
	}
	ex.Stats.Stubs[name]++
}

// runIntrinsic runs f with fork/retry handling. f must not mutate the state before its last
// decide/concretize call.
func (ex *Exec) runIntrinsic(st *State, f func(st *State) []Value) []Outcome {
	work := []*State{st}
	var outs []Outcome
	for len(work) > 0 {
		s := work[len(work)-1]
		work = work[:len(work)-1]
		func() {
			defer func() {
				if r := recover(); r != nil {
					switch sig := r.(type) {
					case forkSignal:
						work = append(work, sig.States...)
					case needDecide:
						func() {
							defer func() {
								if r2 := recover(); r2 != nil {
									if fs, ok := r2.(forkSignal); ok {
										work = append(work, fs.States...)
										return
									}
									panic(r2)
								}
							}()
							ex.decide(s, sig.C)
							work = append(work, s)
						}()
					case goPanic:
						outs = append(outs, Outcome{St: s, Kind: OPanic, Panic: sig.Val})
					case abortSignal:
						if sig.Kind != "INFEASIBLE" {
							outs = append(outs, Outcome{St: s, Kind: OAbort, Abort: sig.Kind + ": " + sig.Msg})
						}
					default:
						panic(r)
					}
				}
			}()
			ex.curSt = s
			vals := f(s)
			outs = append(outs, Outcome{St: s, Kind: ORet, Vals: vals})
		}()
	}
	return outs
}

func (ex *Exec) tryIntrinsic(st *State, fn *ssa.Function, args []Value, depth int) ([]Outcome, bool) {
	name := fn.String()
	if fn.Pkg != nil && strings.HasPrefix(fn.Name(), "zz") && fn.Signature.Recv() == nil {
		if outs, ok := ex.shimIntrinsic(st, fn, args, depth); ok {
			return outs, true
		}
	}
	if o := fn.Origin(); o != nil {
		name = o.String()
	}
	if name == "(*sync.Pool).Get" || name == "(*sync.Pool).Put" {
		ex.noteStub(name + " (model: Get returns the most recently Put object, else New())")
		return ex.syncPool(st, name, args, depth), true
	}
	if ex.StubSets["metering"] && meteringStubRe.MatchString(name) {
		ex.noteStub("stub:" + name)
		res := fn.Signature.Results()
		vals := make([]Value, res.Len())
		for i := range vals {
			vals[i] = ex.zero(res.At(i).Type())
		}
		return []Outcome{{St: st, Kind: ORet, Vals: vals}}, true
	}
	if ex.StubSets["bytearrays"] {
		if name == interpPkg+"NewArrayValueWithIterator" {
			ex.noteStub("stub:" + name)
			return ex.callArrayWithIterator(st, args, depth), true
		}
		if f, ok := arrayStubs[name]; ok {
			ex.noteStub("stub:" + name)
			return ex.runIntrinsic(st, func(s *State) []Value { return f(ex, s, fn, args, depth) }), true
		}
	}
	if f, ok := rangeStubs[name]; ok && ex.StubSets["range"] {
		ex.noteStub("stub:" + name)
		return ex.runIntrinsic(st, func(s *State) []Value { return f(ex, s, fn, args, depth) }), true
	}
	if f, ok := summaryIntrinsics[name]; ok && !ex.StubSets["nosum"] {
		ex.noteStub("summary:" + name)
		return ex.runIntrinsic(st, func(s *State) []Value { return f(ex, s, fn, args, depth) }), true
	}
	if f, ok := intrinsics[name]; ok {
		ex.noteStub(name)
		return ex.runIntrinsic(st, func(s *State) []Value { return f(ex, s, fn, args, depth) }), true
	}
	return nil, false
}

// ---- shim (harness API)

func (ex *Exec) pinnedNext() (*big.Int, bool) {
	if ex.Pinned == nil {
		return nil, false
	}
	if ex.pinIdx >= len(ex.Pinned) {
		ex.pinIdx++
		return big.NewInt(0), true
	}
	v, ok := new(big.Int).SetString(ex.Pinned[ex.pinIdx], 10)
	if !ok {
		v = big.NewInt(0)
	}
	ex.pinIdx++
	return v, true
}

var nondetKinds = map[string]IntKind{
	"zzNondetInt8": {8, true}, "zzNondetInt16": {16, true}, "zzNondetInt32": {32, true}, "zzNondetInt64": {64, true}, "zzNondetInt": {64, true},
	"zzNondetUint8": {8, false}, "zzNondetUint16": {16, false}, "zzNondetUint32": {32, false}, "zzNondetUint64": {64, false}, "zzNondetUint": {64, false},
	"zzNondetByte": {8, false},
}

func (ex *Exec) shimIntrinsic(st *State, fn *ssa.Function, args []Value, depth int) ([]Outcome, bool) {
	name := fn.Name()
	if k, ok := nondetKinds[name]; ok {
		return ex.runIntrinsic(st, func(s *State) []Value {
			if v, ok := ex.pinnedNext(); ok {
				return []Value{ex.intConst(v, k)}
			}
			return []Value{ex.newNondet(s, strings.TrimPrefix(name, "zzNondet"), k)}
		}), true
	}
	if strings.HasPrefix(name, "zzNative") {
		// functions that only do something in the native build (e.g. create a real interpreter
		// as context); symbolically they return zero values (nil contexts)
		res := fn.Signature.Results()
		vals := make([]Value, res.Len())
		for i := range vals {
			vals[i] = ex.zero(res.At(i).Type())
		}
		return []Outcome{{St: st, Kind: ORet, Vals: vals}}, true
	}
	switch name {
	case "zzNondetBool":
		return ex.runIntrinsic(st, func(s *State) []Value {
			if v, ok := ex.pinnedNext(); ok {
				return []Value{BoolC(v.Sign() != 0)}
			}
			t := NewVar("Bool", BoolSort)
			s.Nondets = append(s.Nondets, NondetRec{Kind: "Bool", T: t})
			return []Value{t}
		}), true
	case "zzNondetBytes":
		return ex.runIntrinsic(st, func(s *State) []Value {
			n := int(ex.concretize(s, args[0].(*Term), 64))
			vals := make([]Value, n)
			for i := range vals {
				if v, ok := ex.pinnedNext(); ok {
					vals[i] = ex.intConst(v, IntKind{8, false})
				} else {
					vals[i] = ex.newNondet(s, "Byte", IntKind{8, false})
				}
			}
			return []Value{ex.newSlice(s, vals, n, ex.byteTerm(0))}
		}), true
	case "zzNondetBig":
		return ex.runIntrinsic(st, func(s *State) []Value {
			var t *Term
			if v, ok := ex.pinnedNext(); ok {
				t = ex.bigConst(v)
			} else {
				if ex.IntMode {
					t = NewVar("Big", IntSort)
				} else {
					t = NewVar("Big", BVSort(ex.BigW))
				}
				s.Nondets = append(s.Nondets, NondetRec{Kind: "Big", T: t})
			}
			return []Value{PtrV{Obj: s.NewObj(BigV{T: t})}}
		}), true
	case "zzBigWithWords":
		// a non-negative big integer of exactly n machine words whose value is otherwise
		// arbitrary (natively: 2^(64n)-1); only its length is visible to the code under test
		return ex.runIntrinsic(st, func(s *State) []Value {
			n := args[0].(*Term)
			if n.IsConst() {
				k := int(ex.constInt(n))
				if k < 0 || k > 1<<20 {
					unsupported("zzBigWithWords(%d)", k)
				}
				v := new(big.Int).Sub(pow2(64*k), bigOne)
				return []Value{PtrV{Obj: s.NewObj(BigV{T: ex.bigConst(v)})}}
			}
			if !ex.IntMode {
				unsupported("zzBigWithWords with a symbolic length needs mode=int")
			}
			a := NewVar("BigW", IntSort)
			a.Lo = bigZero
			s.AuxVars = append(s.AuxVars, a)
			s.Assume(ICmpRaw("<=", IntC64(0), a))
			s.Assume(Eq(Eq(n, IntC64(0)), Eq(a, IntC64(0))))
			bindBitsLen(a, n)
			bindBitsLen(ex.bigAbs(a), n)
			return []Value{PtrV{Obj: s.NewObj(BigV{T: a})}}
		}), true
	case "zzNondetBigBits":
		return ex.runIntrinsic(st, func(s *State) []Value {
			bT := args[0].(*Term)
			if !bT.IsConst() {
				unsupported("zzNondetBigBits with symbolic width")
			}
			bits := int(ex.constInt(bT))
			var t *Term
			if v, ok := ex.pinnedNext(); ok {
				t = ex.bigConst(v)
			} else {
				lim := new(big.Int).Sub(pow2(bits), bigOne)
				nlim := new(big.Int).Neg(lim)
				if ex.IntMode {
					t = NewIntVarRanged("Big", nlim, lim)
					s.PC = append(s.PC, ICmpRaw("<=", IntC(nlim), t), ICmpRaw("<=", t, IntC(lim)))
				} else {
					t = NewVar("Big", BVSort(ex.BigW))
					s.PC = append(s.PC, BVCmp("bvsle", BVC(nlim, ex.BigW), t), BVCmp("bvsle", t, BVC(lim, ex.BigW)))
				}
				s.Nondets = append(s.Nondets, NondetRec{Kind: "Big", T: t})
			}
			return []Value{PtrV{Obj: s.NewObj(BigV{T: t})}}
		}), true
	case "zzChoice":
		nT := args[0].(*Term)
		if !nT.IsConst() {
			return []Outcome{{St: st, Kind: OAbort, Abort: "UNSUPPORTED: zzChoice with symbolic bound"}}, true
		}
		n := int(ex.constInt(nT))
		if v, ok := ex.pinnedNext(); ok {
			return []Outcome{{St: st, Kind: ORet, Vals: []Value{ex.intConst(v, intK)}}}, true
		}
		t := ex.newNondet(st, "Int", intK)
		var res []Outcome
		for i := 0; i < n; i++ {
			s := st
			if i < n-1 {
				s = st.Clone()
			}
			c := ex.intConst(big.NewInt(int64(i)), intK)
			s.Assume(Eq(t, c))
			res = append(res, Outcome{St: s, Kind: ORet, Vals: []Value{c}})
		}
		ex.Stats.Forks += n - 1
		return res, true
	case "zzAssume":
		return ex.runIntrinsic(st, func(s *State) []Value {
			c := args[0].(*Term)
			if !ex.decide(s, c) {
				panic(abortSignal{Kind: "INFEASIBLE", Msg: "assume false"})
			}
			return nil
		}), true
	case "zzAssert":
		return ex.runIntrinsic(st, func(s *State) []Value {
			label, _ := args[0].(StrV).Concrete()
			s.Asserts = append(s.Asserts, AssertRec{Label: label, Cond: args[1].(*Term), PCLen: len(s.PC), KF: s.KF})
			return nil
		}), true
	case "zzLemma":
		return ex.runIntrinsic(st, func(s *State) []Value {
			label, _ := args[0].(StrV).Concrete()
			c := args[1].(*Term)
			s.Asserts = append(s.Asserts, AssertRec{Label: label, Cond: c, PCLen: len(s.PC), KF: s.KF})
			s.Assume(c)
			return nil
		}), true
	case "zzKnownFinding":
		return ex.runIntrinsic(st, func(s *State) []Value {
			id, _ := args[0].(StrV).Concrete()
			c := args[1].(*Term)
			if ex.decide(s, c) {
				if ex.KnownIDs[id] {
					s.KF = id
				}
				return []Value{True()}
			}
			return []Value{False()}
		}), true
	case "zzKnownFindingEnd":
		// ends the region of a known finding opened earlier on this path
		return ex.runIntrinsic(st, func(s *State) []Value {
			id, _ := args[0].(StrV).Concrete()
			if s.KF == id {
				s.KF = ""
			}
			return nil
		}), true
	case "zzAnd", "zzOr", "zzNot", "zzImplies", "zzIff", "zzIteInt", "zzIteU64", "zzIteI64", "zzIteBig":
		return ex.runIntrinsic(st, func(s *State) []Value {
			switch name {
			case "zzAnd":
				return []Value{And(args[0].(*Term), args[1].(*Term))}
			case "zzOr":
				return []Value{Or(args[0].(*Term), args[1].(*Term))}
			case "zzNot":
				return []Value{Not(args[0].(*Term))}
			case "zzImplies":
				return []Value{Implies(args[0].(*Term), args[1].(*Term))}
			case "zzIff":
				return []Value{Eq(args[0].(*Term), args[1].(*Term))}
			case "zzIteBig":
				a, b := ex.bigLoad(s, args[1]), ex.bigLoad(s, args[2])
				return []Value{PtrV{Obj: s.NewObj(BigV{T: Ite(args[0].(*Term), a, b)})}}
			}
			return []Value{Ite(args[0].(*Term), args[1].(*Term), args[2].(*Term))}
		}), true
	case "zzTypeName":
		return ex.runIntrinsic(st, func(s *State) []Value {
			iv := args[0].(IfaceV)
			return []Value{StrV{S: typeName(iv.T)}}
		}), true
	case "zzCatch":
		outs := ex.callValue(st, args[0], nil, nil, depth+1)
		var res []Outcome
		for _, o := range outs {
			switch o.Kind {
			case OAbort:
				res = append(res, o)
			case ORet:
				res = append(res, Outcome{St: o.St, Kind: ORet, Vals: []Value{StructV{F: []Value{False(), o.Vals[0], StrV{}}}}})
			case OPanic:
				pv, _ := o.Panic.(IfaceV)
				res = append(res, Outcome{St: o.St, Kind: ORet, Vals: []Value{StructV{F: []Value{True(), o.Panic, StrV{S: typeName(pv.T)}}}}})
			}
		}
		return res, true
	}
	return nil, false
}

// ---- misc stdlib stubs

func opaqueErr(desc string) Value {
	return IfaceV{T: opaqueErrType, V: OpaqueV{Desc: desc}}
}

func init() {
	intrinsics["fmt.Sprintf"] = func(ex *Exec, st *State, fn *ssa.Function, args []Value, depth int) []Value {
		return []Value{StrV{S: "<fmt.Sprintf>"}}
	}
	intrinsics["fmt.Sprint"] = intrinsics["fmt.Sprintf"]
	intrinsics["fmt.Sprintln"] = intrinsics["fmt.Sprintf"]
	intrinsics["fmt.Errorf"] = func(ex *Exec, st *State, fn *ssa.Function, args []Value, depth int) []Value {
		return []Value{opaqueErr("fmt.Errorf")}
	}
	intrinsics["runtime/debug.Stack"] = func(ex *Exec, st *State, fn *ssa.Function, args []Value, depth int) []Value {
		return []Value{SliceV{}}
	}
	intrinsics["runtime.KeepAlive"] = func(ex *Exec, st *State, fn *ssa.Function, args []Value, depth int) []Value {
		return nil
	}
}
