package main

// Model of math/big.Int: each object holds one mathematical integer.
// int-mode: Int sort (exact, unbounded). bv-mode: signed bit-vector of width ex.BigW; operations
// that can exceed the width record a "zz:bigW" obligation (a checked bound).

import (
	"fmt"
	"go/token"
	"math/big"

	"golang.org/x/tools/go/ssa"
)

func (ex *Exec) bigConst(v *big.Int) *Term {
	if ex.IntMode {
		return IntC(v)
	}
	if v.BitLen() >= ex.BigW {
		unsupported("big.Int constant of %d bits exceeds the model width %d (raise bigw)", v.BitLen(), ex.BigW)
	}
	return BVC(v, ex.BigW)
}

func (ex *Exec) bigLoad(st *State, v Value) *Term {
	p, ok := v.(PtrV)
	if !ok {
		unsupported("big.Int receiver %s", describe(v))
	}
	b, ok := ex.load(st, p).(BigV)
	if !ok {
		unsupported("big.Int object content %s", describe(ex.load(st, p)))
	}
	return b.T
}

func (ex *Exec) bigStore(st *State, v Value, t *Term) {
	ex.store(st, v.(PtrV), BigV{T: t})
}

func (ex *Exec) bigFitNote(st *State, cond *Term) {
	if v, ok := cond.BoolVal(); ok && v {
		return
	}
	if n := len(st.Asserts); n > 0 && st.Asserts[n-1].Label == "zz:bigW" && st.Asserts[n-1].PCLen == len(st.PC) {
		last := st.Asserts[n-1]
		last.Cond = And(last.Cond, cond)
		st.Asserts = append(append([]AssertRec(nil), st.Asserts[:n-1]...), last)
		return
	}
	st.Asserts = append(st.Asserts, AssertRec{Label: "zz:bigW", Cond: cond, PCLen: len(st.PC)})
}

func (ex *Exec) bigLtZero(t *Term) *Term {
	if ex.IntMode {
		return ICmp("<", t, IntC64(0))
	}
	return BVCmp("bvslt", t, BVC(bigZero, ex.BigW))
}

func (ex *Exec) bigAbs(t *Term) *Term {
	if ex.IntMode {
		return Ite(ICmp("<", t, IntC64(0)), INeg(t), t)
	}
	return Ite(ex.bigLtZero(t), BVNeg(t), t)
}

func (ex *Exec) bigCmp(op string, a, b *Term) *Term { // op: < <=
	if ex.IntMode {
		return ICmp(op, a, b)
	}
	if op == "<" {
		return BVCmp("bvslt", a, b)
	}
	return BVCmp("bvsle", a, b)
}

// bigFromInt converts a Go integer term of kind k to a big term.
func (ex *Exec) bigFromInt(t *Term, k IntKind) *Term {
	if ex.IntMode {
		return t
	}
	if k.Signed {
		return SExt(t, ex.BigW)
	}
	return ZExt(t, ex.BigW)
}

// bigToInt truncates a big term to a Go integer of kind k (two's complement low bits).
func (ex *Exec) bigToInt(t *Term, k IntKind) *Term {
	if ex.IntMode {
		return ex.wrap(t, k)
	}
	return Extract(k.W-1, 0, t)
}

func (ex *Exec) bigArith(st *State, op string, a, b *Term) *Term {
	if ex.IntMode {
		switch op {
		case "add":
			return IAdd(a, b)
		case "sub":
			return ISub(a, b)
		case "mul":
			return IMul(a, b)
		}
	}
	W := ex.BigW
	switch op {
	case "add", "sub":
		xa, xb := SExt(a, W+1), SExt(b, W+1)
		var full *Term
		if op == "add" {
			full = BV2("bvadd", xa, xb)
		} else {
			full = BV2("bvsub", xa, xb)
		}
		r := Extract(W-1, 0, full)
		ex.bigFitNote(st, Eq(SExt(r, W+1), full))
		return r
	case "mul":
		if a.IsConst() || b.IsConst() {
			xa, xb := SExt(a, 2*W), SExt(b, 2*W)
			full := BV2("bvmul", xa, xb)
			r := Extract(W-1, 0, full)
			ex.bigFitNote(st, Eq(SExt(r, 2*W), full))
			return r
		}
		// both symbolic: require both to fit in W/2-1 bits (sufficient, checked)
		h := W / 2
		fits := func(x *Term) *Term { return Eq(SExt(Extract(h-2, 0, x), W), x) }
		ex.bigFitNote(st, And(fits(a), fits(b)))
		return BV2("bvmul", a, b)
	}
	panic("bigArith " + op)
}

func bigName(m string) string { return "(*math/big.Int)." + m }

func regBig(m string, f intrinsicFn) { intrinsics[bigName(m)] = f }

func (ex *Exec) goInt(v int64) *Term { return ex.intConst(big.NewInt(v), intK) }

func init() {
	intrinsics["math/big.NewInt"] = func(ex *Exec, st *State, fn *ssa.Function, args []Value, depth int) []Value {
		t := ex.bigFromInt(args[0].(*Term), IntKind{64, true})
		return []Value{PtrV{Obj: st.NewObj(BigV{T: t})}}
	}
	bin := func(op string) intrinsicFn {
		return func(ex *Exec, st *State, fn *ssa.Function, args []Value, depth int) []Value {
			a, b := ex.bigLoad(st, args[1]), ex.bigLoad(st, args[2])
			ex.bigLoad(st, args[0])
			ex.bigStore(st, args[0], ex.bigArith(st, op, a, b))
			return []Value{args[0]}
		}
	}
	regBig("Add", bin("add"))
	regBig("Sub", bin("sub"))
	regBig("Mul", bin("mul"))
	regBig("Set", func(ex *Exec, st *State, fn *ssa.Function, args []Value, depth int) []Value {
		a := ex.bigLoad(st, args[1])
		ex.bigLoad(st, args[0])
		ex.bigStore(st, args[0], a)
		return []Value{args[0]}
	})
	regBig("SetInt64", func(ex *Exec, st *State, fn *ssa.Function, args []Value, depth int) []Value {
		ex.bigLoad(st, args[0])
		ex.bigStore(st, args[0], ex.bigFromInt(args[1].(*Term), IntKind{64, true}))
		return []Value{args[0]}
	})
	regBig("SetUint64", func(ex *Exec, st *State, fn *ssa.Function, args []Value, depth int) []Value {
		ex.bigLoad(st, args[0])
		ex.bigStore(st, args[0], ex.bigFromInt(args[1].(*Term), IntKind{64, false}))
		return []Value{args[0]}
	})
	regBig("Neg", func(ex *Exec, st *State, fn *ssa.Function, args []Value, depth int) []Value {
		a := ex.bigLoad(st, args[1])
		ex.bigLoad(st, args[0])
		ex.bigStore(st, args[0], ex.bigArith(st, "sub", ex.bigConst(bigZero), a))
		return []Value{args[0]}
	})
	regBig("Abs", func(ex *Exec, st *State, fn *ssa.Function, args []Value, depth int) []Value {
		a := ex.bigLoad(st, args[1])
		ex.bigLoad(st, args[0])
		neg := ex.bigArith(st, "sub", ex.bigConst(bigZero), a)
		ex.bigStore(st, args[0], Ite(ex.bigLtZero(a), neg, a))
		return []Value{args[0]}
	})
	regBig("Sign", func(ex *Exec, st *State, fn *ssa.Function, args []Value, depth int) []Value {
		a := ex.bigLoad(st, args[0])
		z := ex.bigConst(bigZero)
		return []Value{Ite(ex.bigLtZero(a), ex.goInt(-1), Ite(Eq(a, z), ex.goInt(0), ex.goInt(1)))}
	})
	regBig("Cmp", func(ex *Exec, st *State, fn *ssa.Function, args []Value, depth int) []Value {
		a, b := ex.bigLoad(st, args[0]), ex.bigLoad(st, args[1])
		return []Value{Ite(ex.bigCmp("<", a, b), ex.goInt(-1), Ite(Eq(a, b), ex.goInt(0), ex.goInt(1)))}
	})
	regBig("CmpAbs", func(ex *Exec, st *State, fn *ssa.Function, args []Value, depth int) []Value {
		a, b := ex.bigAbs(ex.bigLoad(st, args[0])), ex.bigAbs(ex.bigLoad(st, args[1]))
		lt := ex.bigCmp("<", a, b)
		if !ex.IntMode {
			lt = BVCmp("bvult", a, b) // |min| is representable as unsigned
		}
		return []Value{Ite(lt, ex.goInt(-1), Ite(Eq(a, b), ex.goInt(0), ex.goInt(1)))}
	})
	regBig("IsInt64", func(ex *Exec, st *State, fn *ssa.Function, args []Value, depth int) []Value {
		a := ex.bigLoad(st, args[0])
		k := IntKind{64, true}
		return []Value{And(ex.bigCmp("<=", ex.bigConst(k.Min()), a), ex.bigCmp("<=", a, ex.bigConst(k.Max())))}
	})
	regBig("IsUint64", func(ex *Exec, st *State, fn *ssa.Function, args []Value, depth int) []Value {
		a := ex.bigLoad(st, args[0])
		k := IntKind{64, false}
		return []Value{And(ex.bigCmp("<=", ex.bigConst(bigZero), a), ex.bigCmp("<=", a, ex.bigConst(k.Max())))}
	})
	regBig("Int64", func(ex *Exec, st *State, fn *ssa.Function, args []Value, depth int) []Value {
		a := ex.bigLoad(st, args[0])
		return []Value{ex.bigToInt(a, IntKind{64, true})}
	})
	regBig("Uint64", func(ex *Exec, st *State, fn *ssa.Function, args []Value, depth int) []Value {
		a := ex.bigLoad(st, args[0])
		return []Value{ex.bigToInt(ex.bigAbs(a), IntKind{64, false})}
	})
	// Quo/Rem: truncated; Div/Mod: Euclidean. Division by zero panics (runtime error in Go: "division by zero").
	divLike := func(kind string) intrinsicFn {
		return func(ex *Exec, st *State, fn *ssa.Function, args []Value, depth int) []Value {
			a, b := ex.bigLoad(st, args[1]), ex.bigLoad(st, args[2])
			ex.bigLoad(st, args[0])
			if ex.decide(st, Eq(b, ex.bigConst(bigZero))) {
				panic(goPanic{Val: ex.runtimeError("big: division by zero")})
			}
			q, r := ex.bigDivRem(st, a, b, kind == "Div" || kind == "Mod")
			if kind == "Quo" || kind == "Div" {
				ex.bigStore(st, args[0], q)
			} else {
				ex.bigStore(st, args[0], r)
			}
			return []Value{args[0]}
		}
	}
	regBig("Quo", divLike("Quo"))
	regBig("Rem", divLike("Rem"))
	regBig("Div", divLike("Div"))
	regBig("Mod", divLike("Mod"))
	divMod := func(euclid bool) intrinsicFn {
		return func(ex *Exec, st *State, fn *ssa.Function, args []Value, depth int) []Value {
			// z.QuoRem(x, y, r) (z, r)
			a, b := ex.bigLoad(st, args[1]), ex.bigLoad(st, args[2])
			ex.bigLoad(st, args[0])
			ex.bigLoad(st, args[3])
			if ex.decide(st, Eq(b, ex.bigConst(bigZero))) {
				panic(goPanic{Val: ex.runtimeError("big: division by zero")})
			}
			q, r := ex.bigDivRem(st, a, b, euclid)
			ex.bigStore(st, args[0], q)
			ex.bigStore(st, args[3], r)
			return []Value{args[0], args[3]}
		}
	}
	regBig("QuoRem", divMod(false))
	regBig("DivMod", divMod(true))

	shiftOp := func(left bool) intrinsicFn {
		return func(ex *Exec, st *State, fn *ssa.Function, args []Value, depth int) []Value {
			a := ex.bigLoad(st, args[1])
			n := args[2].(*Term) // uint
			ex.bigLoad(st, args[0])
			var r *Term
			if ex.IntMode {
				if !n.IsConst() {
					unsupported("int-mode big shift by symbolic amount")
				}
				if n.Val.BitLen() > 24 {
					unsupported("big shift amount too large")
				}
				p := IntC(pow2(int(n.Val.Int64())))
				if left {
					r = IMul(a, p)
				} else {
					r = IDiv(a, p)
				}
			} else {
				W := ex.BigW
				var nw *Term
				if W >= 64 {
					nw = ZExt(n, W)
				} else {
					big_ := BVCmp("bvuge", n, BVC64(uint64(W), 64))
					nw = Ite(big_, BVC64(uint64(W), W), Extract(W-1, 0, n))
				}
				if left {
					r = BV2("bvshl", a, nw)
					// fits iff shifting back restores
					ex.bigFitNote(st, Eq(BV2("bvashr", r, nw), a))
				} else {
					r = BV2("bvashr", a, nw)
				}
			}
			ex.bigStore(st, args[0], r)
			return []Value{args[0]}
		}
	}
	regBig("Lsh", shiftOp(true))
	regBig("Rsh", shiftOp(false))

	bitOp := func(op string) intrinsicFn {
		return func(ex *Exec, st *State, fn *ssa.Function, args []Value, depth int) []Value {
			a, b := ex.bigLoad(st, args[1]), ex.bigLoad(st, args[2])
			ex.bigLoad(st, args[0])
			var r *Term
			if ex.IntMode {
				if !(a.IsConst() && b.IsConst()) {
					unsupported("int-mode big bitwise op on symbolic operands")
				}
				v := new(big.Int)
				switch op {
				case "bvand":
					v.And(a.Val, b.Val)
				case "bvor":
					v.Or(a.Val, b.Val)
				case "bvxor":
					v.Xor(a.Val, b.Val)
				case "andnot":
					v.AndNot(a.Val, b.Val)
				}
				r = IntC(v)
			} else if op == "andnot" {
				r = BV2("bvand", a, BVNot(b))
			} else {
				r = BV2(op, a, b)
			}
			ex.bigStore(st, args[0], r)
			return []Value{args[0]}
		}
	}
	regBig("And", bitOp("bvand"))
	regBig("Or", bitOp("bvor"))
	regBig("Xor", bitOp("bvxor"))
	regBig("AndNot", bitOp("andnot"))
	regBig("Not", func(ex *Exec, st *State, fn *ssa.Function, args []Value, depth int) []Value {
		a := ex.bigLoad(st, args[1])
		ex.bigLoad(st, args[0])
		if ex.IntMode {
			ex.bigStore(st, args[0], ISub(IntC64(-1), a))
		} else {
			ex.bigStore(st, args[0], BVNot(a))
		}
		return []Value{args[0]}
	})
	regBig("BitLen", func(ex *Exec, st *State, fn *ssa.Function, args []Value, depth int) []Value {
		a := ex.bigLoad(st, args[0])
		return []Value{ex.bigBitLen(st, a)}
	})
	regBig("Bit", func(ex *Exec, st *State, fn *ssa.Function, args []Value, depth int) []Value {
		a := ex.bigLoad(st, args[0])
		i := args[1].(*Term)
		uk := IntKind{64, false}
		if ex.IntMode {
			if !i.IsConst() {
				unsupported("int-mode big.Bit with symbolic index")
			}
			p := IntC(pow2(int(i.Val.Int64())))
			return []Value{IMod(IDiv(a, p), IntC64(2))} // two's complement bit of floor division
		}
		W := ex.BigW
		iw := ex.clampShift(i, W)
		sh := BV2("bvashr", a, iw)
		return []Value{ZExt(Extract(0, 0, sh), uk.W)}
	})
	regBig("Bytes", func(ex *Exec, st *State, fn *ssa.Function, args []Value, depth int) []Value {
		a := ex.bigAbs(ex.bigLoad(st, args[0]))
		n := ex.bigByteLen(st, a)
		return []Value{ex.bigBytes(st, a, n, n)}
	})
	regBig("FillBytes", func(ex *Exec, st *State, fn *ssa.Function, args []Value, depth int) []Value {
		a := ex.bigAbs(ex.bigLoad(st, args[0]))
		buf := args[1].(SliceV)
		// fits iff abs < 256^len: one decision, no fork over the byte length
		var fits *Term
		if ex.IntMode {
			fits = ICmp("<", a, IntC(pow2(8*buf.Len)))
		} else if 8*buf.Len >= ex.BigW {
			fits = True()
		} else {
			fits = BVCmp("bvult", a, BVC(pow2(8*buf.Len), ex.BigW))
		}
		if !ex.decide(st, fits) {
			panic(goPanic{Val: IfaceV{T: stringPanicType, V: StrV{S: "math/big: buffer too small to fit value"}}})
		}
		n := buf.Len
		src := ex.bigBytes(st, a, n, buf.Len)
		el := ex.sliceElems(st, src)
		for i, v := range el {
			ex.store(st, ex.sliceElemPtr(buf, i), v)
		}
		return []Value{buf}
	})
	regBig("SetBytes", func(ex *Exec, st *State, fn *ssa.Function, args []Value, depth int) []Value {
		buf := args[1].(SliceV)
		ex.bigLoad(st, args[0])
		el := ex.sliceElems(st, buf)
		var r *Term
		if ex.IntMode {
			r = IntC64(0)
			for _, e := range el {
				r = IAdd(IMul(r, IntC64(256)), e.(*Term))
			}
		} else {
			W := ex.BigW
			if len(el)*8 >= W {
				unsupported("big.SetBytes of %d bytes exceeds model width %d", len(el), W)
			}
			r = BVC(bigZero, W)
			for i, e := range el {
				sh := uint(8 * (len(el) - 1 - i))
				r = BV2("bvor", r, BV2("bvshl", ZExt(e.(*Term), W), BVC64(uint64(sh), W)))
			}
		}
		ex.bigStore(st, args[0], r)
		return []Value{args[0]}
	})
	regBig("Bits", func(ex *Exec, st *State, fn *ssa.Function, args []Value, depth int) []Value {
		a := ex.bigAbs(ex.bigLoad(st, args[0]))
		if ex.IntMode && !a.IsConst() && a.Hi == nil {
			// unbounded value: only the length is modelled, as an arbitrary n >= 0 with n == 0 <=> a == 0
			// (the length is a function of the value: the same term gets the same variable)
			n := bitsLenVar(a)
			if n.Op == "var" {
				st.AuxVars = append(st.AuxVars, n)
			}
			st.Assume(ICmpRaw("<=", IntC64(0), n))
			st.Assume(Eq(Eq(n, IntC64(0)), Eq(a, IntC64(0))))
			return []Value{SliceV{SymLen: n}}
		}
		if ex.IntMode && ex.StubSets["absbits"] && !a.IsConst() && a.Hi != nil {
			// bounded value, length-only view without forking: n = number of k with |a| >= 2^(64k)
			maxW := (a.Hi.BitLen() + 63) / 64
			n := IntC64(0)
			for k := 0; k < maxW; k++ {
				n = IAdd(n, Ite(ICmp(">=", a, IntC(pow2(64*k))), IntC64(1), IntC64(0)))
			}
			return []Value{SliceV{SymLen: n}}
		}
		nw := ex.bigUnitLen(st, a, 64)
		// nb fixes the byte length; the word count follows
		uk := IntKind{64, false}
		vals := make([]Value, nw)
		for i := 0; i < nw; i++ {
			if ex.IntMode {
				vals[i] = IMod(IDiv(a, IntC(pow2(64*i))), IntC(pow2(64)))
			} else {
				vals[i] = Extract(64*i+63, 64*i, ex.padTo(a, 64*nw))
			}
		}
		return []Value{ex.newSlice(st, vals, nw, ex.intZero(uk))}
	})
	regBig("SetBits", func(ex *Exec, st *State, fn *ssa.Function, args []Value, depth int) []Value {
		buf := args[1].(SliceV)
		ex.bigLoad(st, args[0])
		el := ex.sliceElems(st, buf)
		var r *Term
		if ex.IntMode {
			r = IntC64(0)
			for i := len(el) - 1; i >= 0; i-- {
				r = IAdd(IMul(r, IntC(pow2(64))), el[i].(*Term))
			}
		} else {
			W := ex.BigW
			if len(el)*64 >= W {
				unsupported("big.SetBits of %d words exceeds model width %d", len(el), W)
			}
			r = BVC(bigZero, W)
			for i, e := range el {
				r = BV2("bvor", r, BV2("bvshl", ZExt(e.(*Term), W), BVC64(uint64(64*i), W)))
			}
		}
		ex.bigStore(st, args[0], r)
		return []Value{args[0]}
	})
	regBig("Exp", func(ex *Exec, st *State, fn *ssa.Function, args []Value, depth int) []Value {
		x, y := ex.bigLoad(st, args[1]), ex.bigLoad(st, args[2])
		ex.bigLoad(st, args[0])
		var m *big.Int
		if p := args[3].(PtrV); p.Obj != 0 {
			mt := ex.bigLoad(st, args[3])
			if !mt.IsConst() {
				unsupported("big.Exp with symbolic modulus")
			}
			m = ex.bigConstVal(mt)
		}
		if !x.IsConst() || !y.IsConst() {
			unsupported("big.Exp with symbolic operands")
		}
		r := new(big.Int).Exp(ex.bigConstVal(x), ex.bigConstVal(y), m)
		ex.bigStore(st, args[0], ex.bigConst(r))
		return []Value{args[0]}
	})
	regBig("SetString", func(ex *Exec, st *State, fn *ssa.Function, args []Value, depth int) []Value {
		s, ok := args[1].(StrV).Concrete()
		if !ok {
			unsupported("big.SetString of symbolic string (use model function)")
		}
		bt := args[2].(*Term)
		if !bt.IsConst() {
			unsupported("big.SetString symbolic base")
		}
		ex.bigLoad(st, args[0])
		v, good := new(big.Int).SetString(s, int(ex.constInt(bt)))
		if !good {
			return []Value{PtrV{}, False()}
		}
		ex.bigStore(st, args[0], ex.bigConst(v))
		return []Value{args[0], True()}
	})
	regBig("String", func(ex *Exec, st *State, fn *ssa.Function, args []Value, depth int) []Value {
		a := ex.bigLoad(st, args[0])
		if a.IsConst() {
			return []Value{StrV{S: ex.bigConstVal(a).String()}}
		}
		return []Value{StrV{S: "<big.String>"}}
	})
}

func (ex *Exec) bigConstVal(t *Term) *big.Int {
	if ex.IntMode {
		return t.Val
	}
	return toSigned(t.Val, t.S.W)
}

func (ex *Exec) clampShift(n *Term, W int) *Term {
	if W >= n.S.W {
		return ZExt(n, W)
	}
	big_ := BVCmp("bvuge", n, BVC64(uint64(W), n.S.W))
	return Ite(big_, BVC64(uint64(W), W), Extract(W-1, 0, n))
}

func (ex *Exec) padTo(a *Term, w int) *Term {
	if a.S.W >= w {
		return a
	}
	return ZExt(a, w)
}

// bigDivRem: a, b big terms, b != 0 on this path.
func (ex *Exec) bigDivRem(st *State, a, b *Term, euclid bool) (q, r *Term) {
	if ex.IntMode {
		if euclid {
			return IDiv(a, b), IMod(a, b)
		}
		return tdiv(a, b), trem(a, b)
	}
	W := ex.BigW
	// divisor a constant power of two: shifts and masks instead of a W-bit divider
	if b.IsConst() {
		bv := toSigned(b.Val, W)
		if bv.Sign() > 0 && new(big.Int).And(bv, new(big.Int).Sub(bv, bigOne)).Sign() == 0 {
			k := bv.BitLen() - 1
			kk := BVC64(uint64(k), W)
			mask := BVC(new(big.Int).Sub(bv, bigOne), W)
			fq := BV2("bvashr", a, kk) // floor quotient
			fr := BV2("bvand", a, mask) // Euclidean remainder
			if euclid {
				return fq, fr
			}
			// truncated: for negative a with non-zero remainder, q = fq+1, r = fr - 2^k
			adj := And(BVCmp("bvslt", a, BVC(bigZero, W)), Not(Eq(fr, BVC(bigZero, W))))
			return Ite(adj, BV2("bvadd", fq, BVC(bigOne, W)), fq), Ite(adj, BV2("bvsub", fr, b), fr)
		}
	}
	// min / -1 overflow in W bits
	minv := BVC(new(big.Int).Neg(pow2(W-1)), W)
	ex.bigFitNote(st, Not(And(Eq(a, minv), Eq(b, BVC(big.NewInt(-1), W)))))
	q = BV2("bvsdiv", a, b)
	r = BV2("bvsrem", a, b)
	if euclid {
		// Euclidean: if r < 0: if b > 0 {q--, r+=b} else {q++, r-=b}
		neg := BVCmp("bvslt", r, BVC(bigZero, W))
		bpos := BVCmp("bvsgt", b, BVC(bigZero, W))
		one := BVC(bigOne, W)
		q2 := Ite(bpos, BV2("bvsub", q, one), BV2("bvadd", q, one))
		r2 := Ite(bpos, BV2("bvadd", r, b), BV2("bvsub", r, b))
		q = Ite(neg, q2, q)
		r = Ite(neg, r2, r)
	}
	return
}

// bigBitLen returns the Go int term for the bit length of |a| (a given as-is, sign ignored).
func (ex *Exec) bigBitLen(st *State, a *Term) *Term {
	abs := ex.bigAbs(a)
	if abs.IsConst() {
		return ex.goInt(int64(ex.bigAbsConst(abs).BitLen()))
	}
	if !ex.IntMode {
		W := ex.BigW
		r := ex.goInt(0)
		for i := 0; i < W; i++ {
			bit := Eq(Extract(i, i, abs), BVC64(1, 1))
			r = Ite(bit, ex.goInt(int64(i+1)), r)
		}
		return r
	}
	if abs.Hi == nil {
		// unbounded value: an arbitrary bit length tied to the (equally abstract) word length:
		// 64*(words-1) < bits <= 64*words, bits == 0 <=> value == 0
		w := bitsLenVar(abs)
		b := bitLenVar(abs)
		if w.Op == "var" {
			st.AuxVars = append(st.AuxVars, w)
		}
		st.AuxVars = append(st.AuxVars, b)
		st.Assume(ICmpRaw("<=", IntC64(0), w))
		st.Assume(Eq(Eq(w, IntC64(0)), Eq(abs, IntC64(0))))
		st.Assume(ICmpRaw("<=", b, IMul(IntC64(64), w)))
		st.Assume(ICmpRaw("<", IMul(IntC64(64), ISub(w, IntC64(1))), Ite(Eq(w, IntC64(0)), IntC64(1), b)))
		st.Assume(ICmpRaw("<=", IntC64(0), b))
		return b
	}
	maxBits := abs.Hi.BitLen()
	if maxBits > 4096 {
		unsupported("int-mode BitLen bound too large (%d bits)", maxBits)
	}
	r := ex.goInt(0)
	for i := 0; i < maxBits; i++ {
		r = Ite(ICmp(">=", abs, IntC(pow2(i))), ex.goInt(int64(i+1)), r)
	}
	return r
}

func (ex *Exec) bigAbsConst(t *Term) *big.Int {
	if ex.IntMode {
		return new(big.Int).Abs(t.Val)
	}
	return t.Val // already abs, as unsigned
}

// bigByteLen concretizes the byte length of non-negative abs (forks over feasible lengths).
func (ex *Exec) bigByteLen(st *State, abs *Term) int {
	if abs.IsConst() {
		return (ex.bigAbsConst(abs).BitLen() + 7) / 8
	}
	var maxBytes int
	if ex.IntMode {
		if abs.Hi == nil {
			unsupported("int-mode byte length of unbounded big value")
		}
		maxBytes = (abs.Hi.BitLen() + 7) / 8
	} else {
		maxBytes = (ex.BigW + 7) / 8
	}
	if maxBytes > 128 {
		unsupported("big byte length bound too large: %d", maxBytes)
	}
	// decide from the top: smallest n with abs < 256^n
	for n := 0; n < maxBytes; n++ {
		var lt *Term
		if ex.IntMode {
			lt = ICmp("<", abs, IntC(pow2(8*n)))
		} else {
			if 8*n >= ex.BigW {
				break
			}
			lt = BVCmp("bvult", abs, BVC(pow2(8*n), ex.BigW))
		}
		if ex.decide(st, lt) {
			return n
		}
	}
	return maxBytes
}

// bigBytes returns a fresh byte slice of length total holding abs big-endian in n significant bytes.
func (ex *Exec) bigBytes(st *State, abs *Term, n, total int) SliceV {
	vals := make([]Value, total)
	for i := 0; i < total; i++ {
		pos := total - 1 - i // byte significance
		if pos >= n {
			vals[i] = ex.byteTerm(0)
			continue
		}
		if ex.IntMode {
			vals[i] = IMod(IDiv(abs, IntC(pow2(8*pos))), IntC64(256))
		} else {
			if 8*pos+7 < ex.BigW {
				vals[i] = Extract(8*pos+7, 8*pos, abs)
			} else if 8*pos < ex.BigW {
				vals[i] = ZExt(Extract(ex.BigW-1, 8*pos, abs), 8)
			} else {
				vals[i] = ex.byteTerm(0)
			}
		}
	}
	return ex.newSlice(st, vals, total, ex.byteTerm(0))
}

var _ = fmt.Sprintf
var _ = token.ADD
