package main

import (
	"fmt"
	"strings"
)

type fixType struct {
	Name   string
	Signed bool
}

var fix64Types = []fixType{{"Fix64", true}, {"UFix64", false}}

// fix64Operand: raw 64-bit representation symbolic; X = exact raw integer (value * 10^8)
func (t fixType) operand(x, X string) string {
	if t.Signed {
		return fmt.Sprintf("\t%sn := zzNondetInt64()\n\t%s := Fix64Value(%sn)\n\t%s := big.NewInt(%sn)\n", x, x, x, X, x)
	}
	return fmt.Sprintf("\t%sn := zzNondetUint64()\n\t%s := UFix64Value{values.UFix64Value(%sn)}\n\t%s := new(big.Int).SetUint64(%sn)\n", x, x, x, X, x)
}

func (t fixType) resultBig(r string) string {
	if t.Signed {
		return fmt.Sprintf("big.NewInt(int64(%s.(Fix64Value)))", r)
	}
	return fmt.Sprintf("new(big.Int).SetUint64(uint64(%s.(UFix64Value).UFix64Value))", r)
}

func (t fixType) min() string {
	if t.Signed {
		return "new(big.Int).Neg(new(big.Int).Lsh(big.NewInt(1), 63))"
	}
	return "new(big.Int)"
}

func (t fixType) max() string {
	if t.Signed {
		return "new(big.Int).Sub(new(big.Int).Lsh(big.NewInt(1), 63), big.NewInt(1))"
	}
	return "new(big.Int).Sub(new(big.Int).Lsh(big.NewInt(1), 64), big.NewInt(1))"
}

// exact raw result of op on raw operands A,B at scale 10^8, truncated toward zero
func fixExact(op string) string {
	switch op {
	case "Plus":
		return "new(big.Int).Add(A, B)"
	case "Minus":
		return "new(big.Int).Sub(A, B)"
	case "Mul":
		return "new(big.Int).Quo(new(big.Int).Mul(A, B), big.NewInt(100000000))"
	case "Div":
		return "new(big.Int).Quo(new(big.Int).Mul(A, big.NewInt(100000000)), B)"
	}
	panic(op)
}

func genC15(tier string) (map[string]string, error) {
	var sb strings.Builder
	sb.WriteString(numericHeader)
	sb.WriteString("//verif:assume Fix64/UFix64: every raw 64-bit operand; exact results computed on raw integers at scale 10^8 (language reference: 8 decimal places)\n")
	for _, t := range fix64Types {
		for _, op := range []string{"Plus", "Minus", "Mul", "Div"} {
			fmt.Fprintf(&sb, "\n//verif:harness property=C15 mode=int stubs=metering\nfunc ZZ_C15_%s_%s() {\n", t.Name, op)
			sb.WriteString(t.operand("x", "A"))
			sb.WriteString(t.operand("y", "B"))
			fmt.Fprintf(&sb, "\tout := zzCatch(func() any { return x.%s(nil, y) })\n", op)
			if op == "Div" {
				sb.WriteString("\tif B.Sign() == 0 {\n\t\tzzAssert(\"div-by-zero\", out.PanicIsErr(\"DivisionByZeroError\"))\n\t\treturn\n\t}\n")
			}
			fmt.Fprintf(&sb, "\texact := %s\n", fixExact(op))
			over := t.Signed || op != "Minus"
			under := (t.Signed && op != "none") || op == "Minus"
			if !t.Signed && op == "Div" {
				over = true
			}
			if over {
				fmt.Fprintf(&sb, "\tif exact.Cmp(%s) > 0 {\n\t\tzzAssert(\"overflow\", out.PanicIsErr(\"OverflowError\"))\n\t\treturn\n\t}\n", t.max())
			}
			if under {
				fmt.Fprintf(&sb, "\tif exact.Cmp(%s) < 0 {\n\t\tzzAssert(\"underflow\", out.PanicIsErr(\"UnderflowError\"))\n\t\treturn\n\t}\n", t.min())
			}
			sb.WriteString("\tzzAssert(\"no-failure\", !out.Panicked)\n\tif out.Panicked {\n\t\treturn\n\t}\n")
			fmt.Fprintf(&sb, "\tzzAssert(\"exact-truncated\", %s.Cmp(exact) == 0)\n}\n", t.resultBig("out.Value"))
		}
		// Mod: a - trunc(a/b)*b; may fail only when the quotient a/b is out of range
		fmt.Fprintf(&sb, "\n//verif:harness property=C15 mode=int stubs=metering timeout=120\nfunc ZZ_C15_%s_Mod() {\n", t.Name)
		sb.WriteString(t.operand("x", "A"))
		sb.WriteString(t.operand("y", "B"))
		sb.WriteString("\tout := zzCatch(func() any { return x.Mod(nil, y) })\n")
		sb.WriteString("\tif B.Sign() == 0 {\n\t\tzzAssert(\"div-by-zero\", out.PanicIsErr(\"DivisionByZeroError\"))\n\t\treturn\n\t}\n")
		fmt.Fprintf(&sb, "\tquot := %s\n", fixExact("Div"))
		// arithmetic lemmas (each discharged by the solver on its own, then used as cuts)
		sb.WriteString("\tF := big.NewInt(100000000)\n\tT := new(big.Int).Quo(A, B)\n")
		sb.WriteString("\tzzLemma(\"lemma-nested-truncation\", new(big.Int).Quo(quot, F).Cmp(T) == 0)\n")
		sb.WriteString("\tzzLemma(\"lemma-scale-cancels\", new(big.Int).Quo(new(big.Int).Mul(new(big.Int).Mul(T, F), B), F).Cmp(new(big.Int).Mul(T, B)) == 0)\n")
		fmt.Fprintf(&sb, "\tif quot.Cmp(%s) > 0 || quot.Cmp(%s) < 0 {\n", t.max(), t.min())
		sb.WriteString("\t\t// quotient not representable: failing with a range error is allowed, a result must still be right\n")
		sb.WriteString("\t\tif out.Panicked {\n\t\t\tzzAssert(\"mod-failure-kind\", out.PanicIsErr(\"OverflowError\") || out.PanicIsErr(\"UnderflowError\"))\n\t\t\treturn\n\t\t}\n")
		sb.WriteString("\t} else {\n\t\tzzAssert(\"mod-no-failure\", !out.Panicked)\n\t\tif out.Panicked {\n\t\t\treturn\n\t\t}\n\t}\n")
		fmt.Fprintf(&sb, "\tzzAssert(\"mod-value\", %s.Cmp(new(big.Int).Rem(A, B)) == 0)\n}\n", t.resultBig("out.Value"))
	}
	// Negate (Fix64 only)
	sb.WriteString("\n//verif:harness property=C15 mode=int stubs=metering\nfunc ZZ_C15_Fix64_Negate() {\n")
	sb.WriteString(fix64Types[0].operand("x", "A"))
	sb.WriteString("\tout := zzCatch(func() any { return x.Negate(nil) })\n\texact := new(big.Int).Neg(A)\n")
	fmt.Fprintf(&sb, "\tif exact.Cmp(%s) > 0 {\n\t\tzzAssert(\"overflow\", out.PanicIsErr(\"OverflowError\"))\n\t\treturn\n\t}\n", fix64Types[0].max())
	sb.WriteString("\tzzAssert(\"no-failure\", !out.Panicked)\n\tif out.Panicked {\n\t\treturn\n\t}\n")
	fmt.Fprintf(&sb, "\tzzAssert(\"exact-truncated\", %s.Cmp(exact) == 0)\n}\n", fix64Types[0].resultBig("out.Value"))
	return map[string]string{"fix64": sb.String()}, nil
}

// saturating fixed-point (Fix64 all four, UFix64 add/sub/mul) for C13
func genC13Fix64(tier string) (map[string]string, error) {
	var sb strings.Builder
	sb.WriteString(numericHeader)
	for _, t := range fix64Types {
		ops := []struct{ M, Op string }{{"SaturatingPlus", "Plus"}, {"SaturatingMinus", "Minus"}, {"SaturatingMul", "Mul"}}
		if t.Signed {
			ops = append(ops, struct{ M, Op string }{"SaturatingDiv", "Div"})
		}
		for _, op := range ops {
			fmt.Fprintf(&sb, "\n//verif:harness property=C13 mode=int stubs=metering\nfunc ZZ_C13_%s_%s() {\n", t.Name, op.M)
			sb.WriteString(t.operand("x", "A"))
			sb.WriteString(t.operand("y", "B"))
			fmt.Fprintf(&sb, "\tout := zzCatch(func() any { return x.%s(nil, y) })\n", op.M)
			if op.Op == "Div" {
				sb.WriteString("\tif B.Sign() == 0 {\n\t\tzzAssert(\"div-by-zero\", out.PanicIsErr(\"DivisionByZeroError\"))\n\t\treturn\n\t}\n")
			}
			fmt.Fprintf(&sb, "\texact := %s\n\tmx := %s\n\tmn := %s\n", fixExact(op.Op), t.max(), t.min())
			sb.WriteString("\tclamped := zzIteBig(exact.Cmp(mx) > 0, mx, exact)\n\tclamped = zzIteBig(clamped.Cmp(mn) < 0, mn, clamped)\n")
			sb.WriteString("\tzzAssert(\"never-fails\", !out.Panicked)\n\tif out.Panicked {\n\t\treturn\n\t}\n")
			fmt.Fprintf(&sb, "\tzzAssert(\"clamps\", %s.Cmp(clamped) == 0)\n}\n", t.resultBig("out.Value"))
		}
	}
	return map[string]string{"satfix64": sb.String()}, nil
}

func init() {
	generators["C15"] = append(generators["C15"], genC15)
	generators["C13"] = append(generators["C13"], genC13Fix64)
}
