package main

import (
	"fmt"
	"strings"
)

// C32: the real operation runs with a harness gauge; metered BigInt bytes >= 8 * words(result).
func genC32(tier string) (map[string]string, error) {
	words := 8
	var sb strings.Builder
	sb.WriteString(`//verif:pkg interpreter
//verif:dump sema
//verif:dump common
//verif:dump values
//verif:assume a harness gauge (a context value whose MeterMemory sums the BigInt amounts; all other context methods are absent) observes what the real operation meters; result size = 8 * word length of the result
//verif:assume UInt + - * / % : operands < 2^512 with symbolic word lengths; UInt and sized-type bitwise/shift operations: operands <= 2 words (sized types: full width), shift amounts < 256; the shift estimators alone additionally for shift amounts < 2^20 against the exact length formula
package PKGNAME

import (
	"math/big"

	"github.com/onflow/cadence/common"
)

type zzMeterCtx struct {
	NumberValueArithmeticContext
	total *uint64
}

func (c zzMeterCtx) MeterMemory(u common.MemoryUsage) error {
	if u.Kind == common.MemoryKindBigInt {
		*c.total += u.Amount
	}
	return nil
}

func (c zzMeterCtx) MeterComputation(u common.ComputationUsage) error { return nil }

func zzWordLen(x *big.Int, maxWords int) int {
	n := 0
	a := new(big.Int).Abs(x)
	for k := 0; k < maxWords; k++ {
		n += zzIteInt(a.Cmp(new(big.Int).Lsh(big.NewInt(1), uint(64*k))) >= 0, 1, 0)
	}
	return n
}

func zzCovers(total uint64, r *big.Int, maxWords int) bool {
	return total >= uint64(8*zzWordLen(r, maxWords))
}
`)
	// UInt arithmetic (int-mode, abstract word lengths)
	for _, op := range []struct {
		M        string
		MaxWords string
		Pre      string
	}{
		{"Plus", fmt.Sprint(words + 1), ""},
		{"Minus", fmt.Sprint(words), "\tzzAssume(A.Cmp(B) >= 0)\n"},
		{"Mul", fmt.Sprint(2 * words), ""},
		{"Div", fmt.Sprint(words), "\tzzAssume(B.Sign() != 0)\n"},
		{"Mod", fmt.Sprint(words), "\tzzAssume(B.Sign() != 0)\n"},
	} {
		fmt.Fprintf(&sb, "\n//verif:harness property=C32 mode=int stubs=absbits timeout=120\nfunc ZZ_C32_UInt_%s() {\n", op.M)
		fmt.Fprintf(&sb, "\tA, B := zzNondetBigBits(%d), zzNondetBigBits(%d)\n\tzzAssume(A.Sign() >= 0)\n\tzzAssume(B.Sign() >= 0)\n%s", 64*words, 64*words, op.Pre)
		sb.WriteString("\tvar total uint64\n\tctx := zzMeterCtx{total: &total}\n")
		fmt.Fprintf(&sb, "\tout := zzCatch(func() any {\n\t\treturn UIntValue{BigInt: new(big.Int).Set(A)}.%s(ctx, UIntValue{BigInt: new(big.Int).Set(B)})\n\t})\n", op.M)
		sb.WriteString("\tzzAssert(\"no-failure\", !out.Panicked)\n\tif !out.Panicked {\n")
		fmt.Fprintf(&sb, "\t\tzzAssert(\"metered-at-least-result-size\", zzCovers(total, out.Value.(UIntValue).BigInt, %s))\n\t}\n}\n", op.MaxWords)
	}
	// shift estimators with large shift amounts (int-mode, no result computed): the result of
	// a << s has ceil((bitlen(a)+s)/64) words, a >> s at most ceil((max(bitlen(a)-s,0)+1)/64)
	sb.WriteString(`
func zzBitLenAbs(x *big.Int, maxBits int) int {
	n := 0
	a := new(big.Int).Abs(x)
	for k := 0; k < maxBits; k++ {
		n += zzIteInt(a.Cmp(new(big.Int).Lsh(big.NewInt(1), uint(k))) >= 0, 1, 0)
	}
	return n
}

// The estimators alone on operands of any length up to 65536 words (4 Mbit): the word lengths la, lb
// are the symbolic inputs, the operands are arbitrary values of exactly those lengths (only the length
// is visible to the estimator; natively the largest value of that length), the result-length bounds
// are the mathematical ones (each is attained by some operands of those lengths).
func zzLen() int {
	n := zzNondetInt()
	zzAssume(n >= 0 && n <= 1<<16)
	return n
}

func zzMaxInt(a, b int) int { return zzIteInt(a >= b, a, b) }

//verif:harness property=C32 mode=int stubs=absbits timeout=120
func ZZ_C32_Estimator_Plus_AnyLength() {
	la, lb := zzLen(), zzLen()
	u := common.NewPlusBigIntMemoryUsage(zzBigWithWords(la), zzBigWithWords(lb))
	zzAssert("estimate-covers-sum-length", zzOr(zzAnd(la == 0, lb == 0), u.Amount >= uint64(8*(zzMaxInt(la, lb)+1))))
}

//verif:harness property=C32 mode=int stubs=absbits timeout=120
func ZZ_C32_Estimator_Minus_AnyLength() {
	la, lb := zzLen(), zzLen()
	u := common.NewMinusBigIntMemoryUsage(zzBigWithWords(la), zzBigWithWords(lb))
	zzAssert("estimate-covers-difference-length", zzOr(zzAnd(la == 0, lb == 0), u.Amount >= uint64(8*(zzMaxInt(la, lb)+1))))
}

//verif:harness property=C32 mode=int stubs=absbits timeout=120
func ZZ_C32_Estimator_Mul_AnyLength() {
	la, lb := zzLen(), zzLen()
	u := common.NewMulBigIntMemoryUsage(zzBigWithWords(la), zzBigWithWords(lb))
	zzAssert("estimate-covers-product-length", zzOr(zzOr(la == 0, lb == 0), u.Amount >= uint64(8*(la+lb))))
}

//verif:harness property=C32 mode=int stubs=absbits timeout=120
func ZZ_C32_Estimator_DivMod_AnyLength() {
	la, lb := zzLen(), zzLen()
	zzAssume(lb > 0)
	// divisors of 100 words and more take the estimator's recursive-division branch, whose
	// product of two symbolic lengths no solver here decides (unknown after 250 s): outside
	zzAssume(lb < 100)
	u := common.NewModBigIntMemoryUsage(zzBigWithWords(la), zzBigWithWords(lb))
	// quotient: at most la-lb+1 words (none if la < lb); remainder: at most min(la, lb) words
	q := zzIteInt(la >= lb, la-lb+1, 0)
	r := zzIteInt(la <= lb, la, lb)
	zzAssert("estimate-covers-quotient-length", u.Amount >= uint64(8*q))
	zzAssert("estimate-covers-remainder-length", u.Amount >= uint64(8*r))
}

//verif:harness property=C32 mode=int stubs=absbits timeout=120
func ZZ_C32_Estimator_LeftShift_Large() {
	A, S := zzNondetBigBits(128), zzNondetBigBits(20)
	zzAssume(S.Sign() >= 0)
	zzAssume(A.Sign() != 0)
	out := zzCatch(func() any { return common.NewBitwiseLeftShiftBigIntMemoryUsage(A, S) })
	zzAssert("no-failure", !out.Panicked)
	if !out.Panicked {
		u := out.Value.(common.MemoryUsage)
		words := (zzBitLenAbs(A, 128) + int(S.Int64()) + 63) / 64
		zzAssert("estimate-covers-shifted-length", u.Amount >= uint64(8*words))
	}
}

//verif:harness property=C32 mode=int stubs=absbits timeout=120
func ZZ_C32_Estimator_RightShift_Large() {
	A, S := zzNondetBigBits(256), zzNondetBigBits(20)
	zzAssume(S.Sign() >= 0)
	out := zzCatch(func() any { return common.NewBitwiseRightShiftBigIntMemoryUsage(A, S) })
	zzAssert("no-failure", !out.Panicked)
	if !out.Panicked {
		u := out.Value.(common.MemoryUsage)
		rem := zzBitLenAbs(A, 256) - int(S.Int64())
		rem = zzIteInt(rem < 0, 0, rem)
		words := (rem + 1 + 63) / 64
		zzAssert("estimate-covers-shifted-length", u.Amount >= uint64(8*words))
	}
}
`)
	// bitwise and shifts for UInt and the sized big types (bv-mode)
	type bt struct {
		Name   string
		Bits   int
		Signed bool
	}
	for _, t := range []bt{{"UInt", 0, false}, {"Int128", 128, true}, {"Int256", 256, true}, {"UInt128", 128, false}, {"UInt256", 256, false}, {"Word128", 128, false}, {"Word256", 256, false}} {
		w := 448
		opBits := 128
		if t.Bits == 256 {
			w = 576
			opBits = 256
		}
		if t.Bits == 256 && tier != "thorough" {
			continue // same code shape as the 128-bit types; thorough tier only (cost)
		}
		operand := func(v string) string {
			s := fmt.Sprintf("\t%s := zzNondetBig()\n", v)
			if t.Signed {
				s += fmt.Sprintf("\tzzAssume(%s.Cmp(new(big.Int).Neg(new(big.Int).Lsh(big.NewInt(1), %d))) >= 0)\n\tzzAssume(%s.Cmp(new(big.Int).Lsh(big.NewInt(1), %d)) < 0)\n", v, opBits-1, v, opBits-1)
			} else {
				s += fmt.Sprintf("\tzzAssume(%s.Sign() >= 0)\n\tzzAssume(%s.Cmp(new(big.Int).Lsh(big.NewInt(1), %d)) < 0)\n", v, v, opBits)
			}
			return s
		}
		maxRes := opBits/64 + 5
		for _, m := range []string{"BitwiseOr", "BitwiseXor", "BitwiseAnd", "BitwiseLeftShift", "BitwiseRightShift"} {
			shift := strings.Contains(m, "Shift")
			fmt.Fprintf(&sb, "\n//verif:harness property=C32 mode=bv bigw=%d stubs=summ unwind=80 timeout=300\nfunc ZZ_C32_%s_%s() {\n", w, t.Name, m)
			sb.WriteString(operand("A"))
			if shift {
				sb.WriteString("\tB := zzNondetBig()\n\tzzAssume(B.Sign() >= 0)\n\tzzAssume(B.Cmp(big.NewInt(256)) < 0)\n")
			} else {
				sb.WriteString(operand("B"))
			}
			sb.WriteString("\tvar total uint64\n\tctx := zzMeterCtx{total: &total}\n")
			fmt.Fprintf(&sb, "\tout := zzCatch(func() any {\n\t\treturn %sValue{BigInt: new(big.Int).Set(A)}.%s(ctx, %sValue{BigInt: new(big.Int).Set(B)})\n\t})\n", t.Name, m, t.Name)
			sb.WriteString("\tzzAssert(\"no-failure\", !out.Panicked)\n\tif !out.Panicked {\n")
			fmt.Fprintf(&sb, "\t\tzzAssert(\"metered-at-least-result-size\", zzCovers(total, out.Value.(%sValue).BigInt, %d))\n\t}\n}\n", t.Name, maxRes)
		}
	}
	return map[string]string{"metering": sb.String()}, nil
}

func init() {
	generators["C32"] = append(generators["C32"], genC32)
}
