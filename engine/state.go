package main

import (
	"fmt"
	"math/big"
	"time"
)

type NondetRec struct {
	Kind string // int8..uint64,int,uint,bool,big,byte
	T    *Term
}

type AssertRec struct {
	Label string
	Cond  *Term
	PCLen int // number of pc conjuncts in force at the assertion
	Site  string
	KF    string // known-finding region id in force (if any)
}

type State struct {
	PC       []*Term
	Heap     map[int]Value
	NextObj  int
	Known    map[int]bool // decided symbolic conditions (term id -> value)
	Conc     map[int]int64
	Nondets  []NondetRec
	Asserts  []AssertRec
	CurPanic *PanicInfo
	Steps    int
	Meter    []MeterRec
	Trace    []string
	KF       string
	Model    map[string]*big.Int // a model of PC (variables missing from it are 0), or nil
	AuxVars  []*Term             // internal variables (not harness inputs) created on this path
	Bounds   map[int]ival        // unsigned intervals of bit-vector variables implied by PC
	Pools    map[int][]Value     // sync.Pool model: objects Put and not yet taken, per pool object
}

type MeterRec struct {
	Kind   *Term
	Amount *Term
}

type PanicInfo struct {
	Val       Value
	Recovered bool
}

func NewState() *State {
	return &State{Heap: map[int]Value{}, NextObj: 1, Known: map[int]bool{}, Conc: map[int]int64{}}
}

func (s *State) Clone() *State {
	n := &State{
		PC:      append([]*Term(nil), s.PC...),
		Heap:    make(map[int]Value, len(s.Heap)+4),
		NextObj: s.NextObj,
		Known:   make(map[int]bool, len(s.Known)+1),
		Conc:    make(map[int]int64, len(s.Conc)+1),
		Nondets: append([]NondetRec(nil), s.Nondets...),
		Asserts: append([]AssertRec(nil), s.Asserts...),
		Steps:   s.Steps,
		Meter:   append([]MeterRec(nil), s.Meter...),
		Trace:   append([]string(nil), s.Trace...),
		KF:      s.KF,
		Model:   s.Model,
		AuxVars: append([]*Term(nil), s.AuxVars...),
	}
	for k, v := range s.Heap {
		n.Heap[k] = v
	}
	for k, v := range s.Known {
		n.Known[k] = v
	}
	for k, v := range s.Conc {
		n.Conc[k] = v
	}
	if s.CurPanic != nil {
		cp := *s.CurPanic
		n.CurPanic = &cp
	}
	if len(s.Pools) > 0 {
		n.Pools = make(map[int][]Value, len(s.Pools))
		for k, v := range s.Pools {
			n.Pools[k] = append([]Value(nil), v...)
		}
	}
	if len(s.Bounds) > 0 {
		n.Bounds = make(map[int]ival, len(s.Bounds))
		for k, v := range s.Bounds {
			n.Bounds[k] = v
		}
	}
	return n
}

func (s *State) NewObj(v Value) int {
	id := s.NextObj
	s.NextObj++
	s.Heap[id] = v
	return id
}

func (s *State) Assume(c *Term) {
	if v, ok := c.BoolVal(); ok && v {
		return
	}
	s.PC = append(s.PC, c)
	s.learn(c)
	// keep the invariant "Model (missing variables = 0) satisfies PC"
	if s.Model != nil && Eval(c, s.Model, map[int]*big.Int{}).Sign() == 0 {
		s.Model = nil
	}
}

// modelSays evaluates a condition under the state's model of its path condition.
func (s *State) modelSays(c *Term) (val bool, ok bool) {
	if s.Model == nil {
		return false, false
	}
	return Eval(c, s.Model, map[int]*big.Int{}).Sign() != 0, true
}

// forkSignal is raised (via panic) by decide/concretize when the current step must be re-executed
// in several successor states.
type forkSignal struct {
	States []*State
}

type abortSignal struct {
	Kind string // UNSUPPORTED, UNWIND, INFEASIBLE
	Msg  string
}

// goPanic is raised by instruction helpers to signal a Go-level panic in the program under test.
type goPanic struct {
	Val Value
}

func unsupported(format string, a ...interface{}) {
	panic(abortSignal{Kind: "UNSUPPORTED", Msg: fmt.Sprintf(format, a...)})
}

// decide returns the truth value of cond on the current path, forking if both are feasible.
func (ex *Exec) decide(st *State, cond *Term) bool {
	if v, ok := cond.BoolVal(); ok {
		return v
	}
	if v, ok := st.Known[cond.ID]; ok {
		return v
	}
	neg := Not(cond)
	if v, ok := st.Known[neg.ID]; ok {
		return !v
	}
	ex.Stats.Decides++
	if v, ok := st.byInterval(cond); ok {
		ex.Stats.IntervalDecides++
		st.Known[cond.ID] = v
		return v
	}
	// model-guided: the side the state's model takes is feasible without asking the solver
	if mv, ok := st.modelSays(cond); ok {
		other := neg
		if !mv {
			other = cond
		}
		r, m := ex.feasibleModel(st, other)
		if r == Unsat {
			st.Known[cond.ID] = mv
			if mv {
				st.learn(cond)
			} else {
				st.learn(neg)
			}
			return mv
		}
		ex.Stats.Forks++
		a := st.Clone() // takes the side the model does NOT take, with the new model
		a.Known[cond.ID] = !mv
		a.Assume(other)
		a.Model = m
		b := st
		b.Known[cond.ID] = mv
		if mv {
			b.Assume(cond)
		} else {
			b.Assume(neg)
		}
		panic(forkSignal{States: []*State{a, b}})
	}
	rT, mT := ex.feasibleModel(st, cond)
	var rF Result
	var mF map[string]*big.Int
	if rT == Unsat {
		rF = Sat
	} else {
		rF, mF = ex.feasibleModel(st, neg)
	}
	if rT == Unsat && rF == Unsat {
		panic(abortSignal{Kind: "INFEASIBLE", Msg: "path condition unsatisfiable"})
	}
	if rF == Unsat {
		st.Known[cond.ID] = true
		st.learn(cond)
		if mT != nil {
			st.Model = mT
		}
		return true
	}
	if rT == Unsat {
		st.Known[cond.ID] = false
		st.learn(neg)
		return false
	}
	// both feasible (or unknown): fork
	ex.Stats.Forks++
	a := st.Clone()
	a.Known[cond.ID] = true
	a.Assume(cond)
	a.Model = mT
	b := st
	b.Known[cond.ID] = false
	b.Assume(neg)
	b.Model = mF
	panic(forkSignal{States: []*State{a, b}})
}

// feasibleModel checks PC && extra and returns a model over the path's variables when sat.
func (ex *Exec) feasibleModel(st *State, extra *Term) (Result, map[string]*big.Int) {
	as := append(append([]*Term(nil), st.PC...), extra)
	vars := make([]*Term, 0, len(st.Nondets)+len(st.AuxVars))
	for _, n := range st.Nondets {
		vars = append(vars, n.T)
	}
	vars = append(vars, st.AuxVars...)
	t0 := time.Now()
	r, m, _ := ex.Feas.Check(as, ex.FeasTimeout, vars)
	ex.Stats.FeasTime += time.Since(t0)
	ex.Stats.FeasQueries++
	if r == Unknown {
		ex.Stats.FeasUnknown++
	}
	if r != Sat || len(m) < len(vars) {
		m = nil
	}
	return r, m
}

func (ex *Exec) feasible(st *State, extra *Term) Result {
	r, _ := ex.feasibleModel(st, extra)
	return r
}

// concretize returns a concrete value for an integer term, forking over all feasible values
// (at most limit; more is an UNWIND abort).
func (ex *Exec) concretize(st *State, t *Term, limit int) int64 {
	if t.IsConst() {
		return ex.constInt(t)
	}
	if v, ok := st.Conc[t.ID]; ok {
		return v
	}
	var vals []*big.Int
	pc := append([]*Term(nil), st.PC...)
	for {
		r, m, _ := ex.Feas.Check(pc, ex.FeasTimeout, []*Term{t})
		ex.Stats.FeasQueries++
		if r == Unknown {
			// under load a 5 s cap can be missed: retry once with a generous cap
			r, m, _ = ex.Feas.Check(pc, 12*ex.FeasTimeout, []*Term{t})
			ex.Stats.FeasQueries++
		}
		if r == Unsat {
			break
		}
		if r == Unknown {
			panic(abortSignal{Kind: "UNSUPPORTED", Msg: "solver unknown while concretizing " + t.String()})
		}
		key := t.Name
		if t.Op != "var" {
			key = fmt.Sprintf("t%d", t.ID)
		}
		v := m[key]
		if v == nil {
			panic(abortSignal{Kind: "UNSUPPORTED", Msg: "no model value while concretizing"})
		}
		vals = append(vals, v)
		if len(vals) > limit {
			panic(abortSignal{Kind: "UNWIND", Msg: fmt.Sprintf("more than %d feasible values for %s", limit, t)})
		}
		pc = append(pc, Not(Eq(t, ex.sameSortConst(t, v))))
	}
	if len(vals) == 0 {
		panic(abortSignal{Kind: "INFEASIBLE", Msg: "path condition unsatisfiable"})
	}
	toI := func(v *big.Int) int64 {
		if t.S.K == SBV {
			return toSigned(v, t.S.W).Int64()
		}
		return v.Int64()
	}
	if len(vals) == 1 {
		st.Conc[t.ID] = toI(vals[0])
		return toI(vals[0])
	}
	ex.Stats.Forks += len(vals) - 1
	var sts []*State
	for i, v := range vals {
		var s *State
		if i == len(vals)-1 {
			s = st
		} else {
			s = st.Clone()
		}
		s.Conc[t.ID] = toI(v)
		s.Assume(Eq(t, ex.sameSortConst(t, v)))
		sts = append(sts, s)
	}
	panic(forkSignal{States: sts})
}

func (ex *Exec) sameSortConst(t *Term, v *big.Int) *Term {
	if t.S.K == SBV {
		return BVC(v, t.S.W)
	}
	return IntC(v)
}

// constInt interprets a constant "int"-typed term as signed.
func (ex *Exec) constInt(t *Term) int64 {
	if t.S.K == SBV {
		return toSigned(t.Val, t.S.W).Int64()
	}
	return t.Val.Int64()
}
