package main

// Harness generators for the numeric properties (C11..C16). The type table is written from the
// language reference (docs: integer and fixed-point types), not from the repo's constants.

import (
	"fmt"
	"strings"
)

type numType struct {
	Name   string // Cadence type name; the interpreter value type is <Name>Value
	Signed bool
	Bits   int    // 0 = unbounded
	Native string // Go native type of the value representation ("" = *big.Int)
	Word   bool
	Scale  int // fixed-point decimal scale (0 = integer)
}

var intTypes = []numType{
	{"Int8", true, 8, "int8", false, 0}, {"Int16", true, 16, "int16", false, 0}, {"Int32", true, 32, "int32", false, 0}, {"Int64", true, 64, "int64", false, 0},
	{"Int128", true, 128, "", false, 0}, {"Int256", true, 256, "", false, 0}, {"Int", true, 0, "", false, 0},
	{"UInt8", false, 8, "uint8", false, 0}, {"UInt16", false, 16, "uint16", false, 0}, {"UInt32", false, 32, "uint32", false, 0}, {"UInt64", false, 64, "uint64", false, 0},
	{"UInt128", false, 128, "", false, 0}, {"UInt256", false, 256, "", false, 0}, {"UInt", false, 0, "", false, 0},
}

var wordTypes = []numType{
	{"Word8", false, 8, "uint8", true, 0}, {"Word16", false, 16, "uint16", true, 0}, {"Word32", false, 32, "uint32", true, 0}, {"Word64", false, 64, "uint64", true, 0},
	{"Word128", false, 128, "", true, 0}, {"Word256", false, 256, "", true, 0},
}

func (t numType) nondet(v string) string {
	if t.Native != "" {
		fn := "zzNondet" + strings.ToUpper(t.Native[:1]) + t.Native[1:]
		return fmt.Sprintf("%s := %s()", v, fn)
	}
	return fmt.Sprintf("%s := zzNondetBig()", v)
}

// specMin/specMax: Go expressions building the mathematical range as *big.Int ("" = none).
func (t numType) specMin() string {
	if t.Bits == 0 {
		if t.Signed {
			return ""
		}
		return "new(big.Int)"
	}
	if !t.Signed {
		return "new(big.Int)"
	}
	return fmt.Sprintf("new(big.Int).Neg(new(big.Int).Lsh(big.NewInt(1), %d))", t.Bits-1)
}

func (t numType) specMax() string {
	if t.Bits == 0 {
		return ""
	}
	if !t.Signed {
		return fmt.Sprintf("new(big.Int).Sub(new(big.Int).Lsh(big.NewInt(1), %d), big.NewInt(1))", t.Bits)
	}
	return fmt.Sprintf("new(big.Int).Sub(new(big.Int).Lsh(big.NewInt(1), %d), big.NewInt(1))", t.Bits-1)
}

// operand emits code declaring value <x> of the interpreter type and its exact value <X> (*big.Int).
func (t numType) operand(x, X string) string {
	var sb strings.Builder
	if t.Native != "" {
		fmt.Fprintf(&sb, "\t%s\n", t.nondet(x+"n"))
		fmt.Fprintf(&sb, "\t%s := %sValue(%sn)\n", x, t.Name, x)
		if t.Signed {
			fmt.Fprintf(&sb, "\t%s := big.NewInt(int64(%sn))\n", X, x)
		} else {
			fmt.Fprintf(&sb, "\t%s := new(big.Int).SetUint64(uint64(%sn))\n", X, x)
		}
		return sb.String()
	}
	fmt.Fprintf(&sb, "\t%s\n", t.nondet(X))
	if mn := t.specMin(); mn != "" {
		fmt.Fprintf(&sb, "\tzzAssume(%s.Cmp(%s) >= 0)\n", X, mn)
	}
	if mx := t.specMax(); mx != "" {
		fmt.Fprintf(&sb, "\tzzAssume(%s.Cmp(%s) <= 0)\n", X, mx)
	}
	if t.Name == "Int" {
		fmt.Fprintf(&sb, "\t%s := IntValue{values.IntValue{BigInt: new(big.Int).Set(%s)}}\n", x, X)
	} else {
		fmt.Fprintf(&sb, "\t%s := %sValue{BigInt: new(big.Int).Set(%s)}\n", x, t.Name, X)
	}
	return sb.String()
}

// resultBig: expression converting the NumberValue result `r` (of this type) into *big.Int.
func (t numType) resultBig(r string) string {
	if t.Native != "" {
		if t.Signed {
			return fmt.Sprintf("big.NewInt(int64(%s.(%sValue)))", r, t.Name)
		}
		return fmt.Sprintf("new(big.Int).SetUint64(uint64(%s.(%sValue)))", r, t.Name)
	}
	return fmt.Sprintf("%s.(%sValue).BigInt", r, t.Name)
}

const numericHeader = `//verif:pkg interpreter
//verif:dump sema
//verif:dump common
//verif:dump values
//verif:dump fixedpoint
package PKGNAME

import (
	"math/big"

	"github.com/onflow/cadence/values"
	fix "github.com/onflow/fixed-point"
)

var _ = fix.Fix128{}
var _ = values.IntValue{}
var _ = big.NewInt
`

func genC11(tier string) (map[string]string, error) {
	var sb strings.Builder
	sb.WriteString(numericHeader)
	sb.WriteString("//verif:assume operands satisfy the type's representation invariant (min <= value <= max; UInt >= 0); both operands have the same type (checker guarantee)\n")
	sb.WriteString("//verif:assume arithmetic context/gauge is nil; big-int metering estimators are stubbed (subject of C32)\n")
	ops := []struct{ Method, Big string }{{"Plus", "Add"}, {"Minus", "Sub"}, {"Mul", "Mul"}, {"Div", "Quo"}, {"Mod", "Rem"}}
	for _, t := range intTypes {
		for _, op := range ops {
			fmt.Fprintf(&sb, "\n//verif:harness property=C11 mode=int stubs=metering\nfunc ZZ_C11_%s_%s() {\n", t.Name, op.Method)
			sb.WriteString(t.operand("x", "A"))
			sb.WriteString(t.operand("y", "B"))
			fmt.Fprintf(&sb, "\tout := zzCatch(func() any { return x.%s(nil, y) })\n", op.Method)
			if op.Method == "Div" || op.Method == "Mod" {
				sb.WriteString("\tif B.Sign() == 0 {\n\t\tzzAssert(\"div-by-zero\", out.PanicIs(\"*interpreter.DivisionByZeroError\") || out.PanicIs(\"values.DivisionByZeroError\"))\n\t\treturn\n\t}\n")
			}
			fmt.Fprintf(&sb, "\texact := new(big.Int).%s(A, B)\n", op.Big)
			emitRangeChecks(&sb, t, canOverflow(t, op.Method), canUnderflow(t, op.Method))
			sb.WriteString("}\n")
		}
		if !t.Signed {
			continue
		}
		// unary minus
		fmt.Fprintf(&sb, "\n//verif:harness property=C11 mode=int stubs=metering\nfunc ZZ_C11_%s_Negate() {\n", t.Name)
		sb.WriteString(t.operand("x", "A"))
		sb.WriteString("\tout := zzCatch(func() any { return x.Negate(nil) })\n")
		sb.WriteString("\texact := new(big.Int).Neg(A)\n")
		emitRangeChecks(&sb, t, true, false)
		sb.WriteString("}\n")
	}
	return map[string]string{"arith": sb.String()}, nil
}

// which failures are mathematically possible (so the vacuity check stays meaningful)
func canOverflow(t numType, op string) bool {
	if t.Signed {
		return op != "Mod"
	}
	return op == "Plus" || op == "Mul"
}

func canUnderflow(t numType, op string) bool {
	if t.Signed {
		return op == "Plus" || op == "Minus" || op == "Mul"
	}
	return op == "Minus"
}

func emitRangeChecks(sb *strings.Builder, t numType, over, under bool) {
	if mx := t.specMax(); mx != "" && over {
		fmt.Fprintf(sb, "\tif exact.Cmp(%s) > 0 {\n\t\tzzAssert(\"overflow\", out.PanicIs(\"*interpreter.OverflowError\"))\n\t\treturn\n\t}\n", mx)
	}
	if mn := t.specMin(); mn != "" && under {
		fmt.Fprintf(sb, "\tif exact.Cmp(%s) < 0 {\n\t\tzzAssert(\"underflow\", out.PanicIs(\"*interpreter.UnderflowError\"))\n\t\treturn\n\t}\n", mn)
	}
	sb.WriteString("\tzzAssert(\"no-failure\", !out.Panicked)\n\tif out.Panicked {\n\t\treturn\n\t}\n")
	fmt.Fprintf(sb, "\tzzAssert(\"exact\", %s.Cmp(exact) == 0)\n", t.resultBig("out.Value"))
}

func init() {
	generators["C11"] = append(generators["C11"], genC11)
}

// ---- C12: Word arithmetic wraps modulo 2^n

func genC12(tier string) (map[string]string, error) {
	var sb strings.Builder
	sb.WriteString(numericHeader)
	sb.WriteString("//verif:assume operands satisfy 0 <= value < 2^n; both operands have the same type; gauge nil\n")
	ops := []struct{ Method, Big string }{{"Plus", "Add"}, {"Minus", "Sub"}, {"Mul", "Mul"}, {"Div", "Quo"}, {"Mod", "Rem"}}
	for _, t := range wordTypes {
		for _, op := range ops {
			fmt.Fprintf(&sb, "\n//verif:harness property=C12 mode=int stubs=metering\nfunc ZZ_C12_%s_%s() {\n", t.Name, op.Method)
			sb.WriteString(t.operand("x", "A"))
			sb.WriteString(t.operand("y", "B"))
			fmt.Fprintf(&sb, "\tout := zzCatch(func() any { return x.%s(nil, y) })\n", op.Method)
			if op.Method == "Div" || op.Method == "Mod" {
				sb.WriteString("\tif B.Sign() == 0 {\n\t\tzzAssert(\"div-by-zero\", out.PanicIs(\"*interpreter.DivisionByZeroError\"))\n\t\treturn\n\t}\n")
			}
			fmt.Fprintf(&sb, "\texact := new(big.Int).%s(A, B)\n", op.Big)
			fmt.Fprintf(&sb, "\twrapped := new(big.Int).Mod(exact, new(big.Int).Lsh(big.NewInt(1), %d))\n", t.Bits)
			sb.WriteString("\tzzAssert(\"never-fails\", !out.Panicked)\n\tif out.Panicked {\n\t\treturn\n\t}\n")
			fmt.Fprintf(&sb, "\tzzAssert(\"wraps-mod-2^n\", %s.Cmp(wrapped) == 0)\n", t.resultBig("out.Value"))
			sb.WriteString("}\n")
		}
	}
	return map[string]string{"word": sb.String()}, nil
}

// ---- C13: saturating arithmetic clamps (integer types; fixed-point in gen_fixed.go)

type satDecl struct{ Add, Sub, Mul, Div bool }

// declared saturating functions per the language reference
func satDeclared(t numType) satDecl {
	switch {
	case t.Word || t.Name == "Int":
		return satDecl{}
	case t.Name == "UInt":
		return satDecl{Sub: true}
	case t.Signed:
		return satDecl{true, true, true, true}
	default:
		return satDecl{true, true, true, false}
	}
}

func genC13(tier string) (map[string]string, error) {
	var sb strings.Builder
	sb.WriteString(numericHeader)
	sb.WriteString("//verif:assume operands satisfy the representation invariant; same-type operands; gauge nil; the set of declared saturating functions is taken from the language reference\n")
	for _, t := range intTypes {
		d := satDeclared(t)
		ops := []struct {
			On          bool
			Method, Big string
		}{{d.Add, "SaturatingPlus", "Add"}, {d.Sub, "SaturatingMinus", "Sub"}, {d.Mul, "SaturatingMul", "Mul"}, {d.Div, "SaturatingDiv", "Quo"}}
		for _, op := range ops {
			if !op.On {
				continue
			}
			fmt.Fprintf(&sb, "\n//verif:harness property=C13 mode=int stubs=metering\nfunc ZZ_C13_%s_%s() {\n", t.Name, op.Method)
			sb.WriteString(t.operand("x", "A"))
			sb.WriteString(t.operand("y", "B"))
			fmt.Fprintf(&sb, "\tout := zzCatch(func() any { return x.%s(nil, y) })\n", op.Method)
			if op.Method == "SaturatingDiv" {
				sb.WriteString("\tif B.Sign() == 0 {\n\t\tzzAssert(\"div-by-zero\", out.PanicIs(\"*interpreter.DivisionByZeroError\"))\n\t\treturn\n\t}\n")
			}
			fmt.Fprintf(&sb, "\texact := new(big.Int).%s(A, B)\n", op.Big)
			sb.WriteString("\tclamped := exact\n")
			if mx := t.specMax(); mx != "" {
				fmt.Fprintf(&sb, "\tmx := %s\n\tclamped = zzIteBig(clamped.Cmp(mx) > 0, mx, clamped)\n", mx)
			}
			if mn := t.specMin(); mn != "" {
				fmt.Fprintf(&sb, "\tmn := %s\n\tclamped = zzIteBig(clamped.Cmp(mn) < 0, mn, clamped)\n", mn)
			}
			sb.WriteString("\tzzAssert(\"never-fails\", !out.Panicked)\n\tif out.Panicked {\n\t\treturn\n\t}\n")
			fmt.Fprintf(&sb, "\tzzAssert(\"clamps\", %s.Cmp(clamped) == 0)\n", t.resultBig("out.Value"))
			sb.WriteString("}\n")
		}
	}
	return map[string]string{"sat": sb.String()}, nil
}

func init() {
	generators["C12"] = append(generators["C12"], genC12)
	generators["C13"] = append(generators["C13"], genC13)
}
