package main

import (
	"encoding/json"
	"fmt"
	"math/big"
	"os"
	"path/filepath"
	"regexp"
	"runtime/debug"
	"sort"
	"strconv"
	"strings"
	"sync"
	"time"

	"golang.org/x/tools/go/packages"
	"golang.org/x/tools/go/ssa"
	"golang.org/x/tools/go/ssa/ssautil"
)

type HarnessSpec struct {
	Name     string
	PkgDir   string
	Property string
	Mode     string // bv | int
	Unwind   int
	BigW     int
	MaxSteps int
	Labels   []string // zzAssert labels appearing in the source
	Timeout  time.Duration
	Tier     string // "" (both) | thorough
	Stubs    []string
}

type PropertyPlan struct {
	ID       string
	Files    map[string][]HarnessFile // pkgDir -> files
	DumpDirs []string
	Specs    []HarnessSpec
}

var harnessRe = regexp.MustCompile(`(?m)^//verif:harness([^\n]*)\nfunc (ZZ_\w+)\(\)`)
var assertRe = regexp.MustCompile(`zz(?:Assert|Lemma)\("([^"]+)"`)

// parseSpecs extracts harness specs from a harness source file.
func parseSpecs(pkgDir string, src string) []HarnessSpec {
	var specs []HarnessSpec
	locs := harnessRe.FindAllStringSubmatchIndex(src, -1)
	for i, loc := range locs {
		attrs := src[loc[2]:loc[3]]
		name := src[loc[4]:loc[5]]
		end := len(src)
		if i+1 < len(locs) {
			end = locs[i+1][0]
		}
		body := src[loc[0]:end]
		sp := HarnessSpec{Name: name, PkgDir: pkgDir, Mode: "bv", Unwind: 64, BigW: 192, MaxSteps: 2000000}
		for _, kv := range strings.Fields(attrs) {
			p := strings.SplitN(kv, "=", 2)
			if len(p) != 2 {
				continue
			}
			switch p[0] {
			case "property":
				sp.Property = p[1]
			case "mode":
				sp.Mode = p[1]
			case "unwind":
				sp.Unwind, _ = strconv.Atoi(p[1])
			case "bigw":
				sp.BigW, _ = strconv.Atoi(p[1])
			case "steps":
				sp.MaxSteps, _ = strconv.Atoi(p[1])
			case "stubs":
				sp.Stubs = strings.Split(p[1], ",")
			case "tier":
				sp.Tier = p[1]
			case "timeout":
				n, _ := strconv.Atoi(p[1])
				sp.Timeout = time.Duration(n) * time.Second
			}
		}
		seen := map[string]bool{}
		for _, m := range assertRe.FindAllStringSubmatch(body, -1) {
			if !seen[m[1]] {
				seen[m[1]] = true
				sp.Labels = append(sp.Labels, m[1])
			}
		}
		specs = append(specs, sp)
	}
	return specs
}

// ---- results

type ObligationResult struct {
	Harness string `json:"harness"`
	Label   string `json:"label"`
	Path    int    `json:"path"`
	Verdict string `json:"verdict"` // unsat | sat | unknown | trivial
	Solver  string `json:"solver,omitempty"`
	Ms      int64  `json:"ms"`
	KF      string `json:"known_finding,omitempty"`
	Vector  []string `json:"vector,omitempty"`
}

type PathRec struct {
	Vector  []string
	Asserts []struct {
		Label string
		OK    bool
	}
	Panic string
}

type HarnessResult struct {
	Spec         HarnessSpec
	Paths        int
	Aborts       []string
	Obligations  []ObligationResult
	PathRecs     []PathRec
	Reached      map[string]bool
	Funcs        map[string]int
	Stubs        map[string]int
	Instrs       int
	FeasQueries  int
	FeasUnknown  int
	SolverTime   time.Duration
	ExecTime     time.Duration
	Broken       string
	SolverWins   map[string]int
	Retry        []retryItem
}

type retryItem struct {
	Idx     int
	As      []*Term
	Vars    []*Term
	Nondets []NondetRec
}

type Checker struct {
	Prog     *ssa.Program
	Pkgs     map[string]*ssa.Package // by dir
	Globals  map[string]interface{}
	KnownIDs map[string]bool
	Tier     string
	ObTimeout time.Duration
	Verbose  bool
}

func loadProgram(ws *Workspace) (*ssa.Program, map[string]*ssa.Package, []*packages.Package, error) {
	pkgs, err := ws.Load()
	if err != nil {
		return nil, nil, nil, err
	}
	prog, spkgs := ssautil.AllPackages(pkgs, ssa.InstantiateGenerics)
	prog.Build()
	byDir := map[string]*ssa.Package{}
	for i, p := range pkgs {
		rel := strings.TrimPrefix(strings.TrimPrefix(p.PkgPath, modPath), "/")
		byDir[rel] = spkgs[i]
	}
	return prog, byDir, pkgs, nil
}

func (c *Checker) newExec(sp HarnessSpec) *Exec {
	ex := &Exec{
		Prog: c.Prog, IntMode: sp.Mode == "int", BigW: sp.BigW, Unwind: sp.Unwind, MaxDepth: 300,
		MaxSteps: sp.MaxSteps, Feas: NewSolver("z3"), FeasTimeout: 5 * time.Second,
		Globals: c.Globals, globalObj: map[*ssa.Global]int{}, KnownIDs: c.KnownIDs,
	}
	ex.Base = NewState()
	ex.StubSets = map[string]bool{}
	for _, s := range sp.Stubs {
		ex.StubSets[s] = true
	}
	return ex
}

// explore runs the harness symbolically (restarting when lazy package inits are needed).
func (c *Checker) explore(ex *Exec, fn *ssa.Function) []Outcome {
	for tries := 0; tries < 20; tries++ {
		st := ex.Base.Clone()
		outs := ex.CallFn(st, fn, nil, nil, 0)
		need := ""
		for _, o := range outs {
			if o.Kind == OAbort && strings.HasPrefix(o.Abort, "NEEDINIT: ") {
				need = strings.TrimPrefix(o.Abort, "NEEDINIT: ")
				if i := strings.Index(need, " in "); i >= 0 {
					need = need[:i]
				}
				break
			}
		}
		if need == "" {
			return outs
		}
		if strings.HasPrefix(need, "global:") {
			msg := ex.RunGlobalInitDeep(strings.TrimPrefix(need, "global:"), 0)
			if msg != "" {
				return []Outcome{{St: st, Kind: OAbort, Abort: "UNSUPPORTED: initialiser of " + need + " failed: " + msg}}
			}
			continue
		}
		if msg := ex.RunPkgInit(need); msg != "" {
			return []Outcome{{St: st, Kind: OAbort, Abort: "UNSUPPORTED: init of " + need + " failed: " + msg}}
		}
	}
	return []Outcome{{Kind: OAbort, Abort: "UNSUPPORTED: too many package inits"}}
}

func modelVector(nondets []NondetRec, model map[string]*big.Int) []string {
	vec := make([]string, len(nondets))
	for i, n := range nondets {
		v := model[n.T.Name]
		if v == nil {
			v = big.NewInt(0)
		}
		if n.T.S.K == SBV {
			signed := strings.HasPrefix(n.Kind, "Int") || n.Kind == "Big"
			if signed {
				v = toSigned(v, n.T.S.W)
			}
		}
		vec[i] = v.String()
	}
	return vec
}

func evalBool(t *Term, nondets []NondetRec, vec []string) bool {
	env := map[string]*big.Int{}
	for i, n := range nondets {
		v, _ := new(big.Int).SetString(vec[i], 10)
		env[n.T.Name] = v
	}
	return Eval(t, env, map[int]*big.Int{}).Sign() != 0
}

func (c *Checker) RunHarness(sp HarnessSpec) *HarnessResult {
	res := &HarnessResult{Spec: sp, Reached: map[string]bool{}}
	pkg := c.Pkgs[sp.PkgDir]
	if pkg == nil {
		res.Broken = "package not loaded: " + sp.PkgDir
		return res
	}
	fn := pkg.Func(sp.Name)
	if fn == nil {
		res.Broken = "harness function not found: " + sp.Name
		return res
	}
	ex := c.newExec(sp)
	defer ex.Feas.Kill()
	t0 := time.Now()
	outs := c.explore(ex, fn)
	res.ExecTime = time.Since(t0)
	res.Funcs, res.Stubs, res.Instrs = ex.Stats.Funcs, ex.Stats.Stubs, ex.Stats.Instrs
	res.FeasQueries, res.FeasUnknown = ex.Stats.FeasQueries, ex.Stats.FeasUnknown

	pf := NewPortfolio([]string{"z3-new", "z3", "cvc5"})
	defer pf.Close()
	obTimeout := c.ObTimeout
	if sp.Timeout > 0 {
		obTimeout = sp.Timeout
	}
	t1 := time.Now()
	pathIdx := 0
	for _, o := range outs {
		if o.Kind == OAbort {
			res.Aborts = append(res.Aborts, o.Abort)
			continue
		}
		pathIdx++
		res.Paths++
		st := o.St
		// vector for this path (model of the full path condition)
		var nvars []*Term
		for _, n := range st.Nondets {
			nvars = append(nvars, n.T)
		}
		pathVec := []string{}
		if len(nvars) > 0 {
			r, m, _ := ex.Feas.Check(st.PC, 20*time.Second, nvars)
			if r == Sat && m != nil {
				pathVec = modelVector(st.Nondets, m)
			} else {
				pathVec = nil
			}
		}
		if pathVec != nil {
			pr := PathRec{Vector: pathVec}
			for _, a := range st.Asserts {
				if a.Label == "zz:bigW" {
					continue
				}
				pr.Asserts = append(pr.Asserts, struct {
					Label string
					OK    bool
				}{a.Label, evalBool(a.Cond, st.Nondets, pathVec)})
			}
			if o.Kind == OPanic {
				if iv, ok := o.Panic.(IfaceV); ok {
					pr.Panic = typeName(iv.T)
				} else {
					pr.Panic = "?"
				}
			}
			res.PathRecs = append(res.PathRecs, pr)
		}
		if o.Kind == OPanic {
			pt := "?"
			if iv, ok := o.Panic.(IfaceV); ok {
				pt = typeName(iv.T) + " " + describe(iv.V)
			}
			ob := ObligationResult{Harness: sp.Name, Label: "zz:uncaught-panic(" + pt + ")", Path: pathIdx, Verdict: "sat", KF: st.KF, Vector: pathVec}
			res.Obligations = append(res.Obligations, ob)
		}
		for _, a := range st.Asserts {
			res.Reached[a.Label] = true
			ob := ObligationResult{Harness: sp.Name, Label: a.Label, Path: pathIdx, KF: a.KF}
			if v, ok := a.Cond.BoolVal(); ok && v {
				ob.Verdict = "trivial"
				res.Obligations = append(res.Obligations, ob)
				continue
			}
			as := append(append([]*Term(nil), st.PC[:a.PCLen]...), Not(a.Cond))
			tq := time.Now()
			r, m, who, errs := pf.Check(as, obTimeout, nvars)
			ob.Ms = time.Since(tq).Milliseconds()
			ob.Solver = who
			switch r {
			case Unsat:
				ob.Verdict = "unsat"
			case Sat:
				ob.Verdict = "sat"
				if m != nil {
					ob.Vector = modelVector(st.Nondets, m)
				}
			default:
				ob.Verdict = "unknown"
				if errs != "" {
					ob.Solver = errs
				}
				res.Retry = append(res.Retry, retryItem{Idx: len(res.Obligations), As: as, Vars: nvars, Nondets: st.Nondets})
			}
			res.Obligations = append(res.Obligations, ob)
		}
	}
	res.SolverTime = time.Since(t1) + ex.Stats.FeasTime
	res.SolverWins = pf.Wins
	return res
}

// ---- property-level run

type Evidence struct {
	PropertyID  string                 `json:"property_id"`
	Tier        string                 `json:"tier"`
	Seed        int                    `json:"seed"`
	Level       string                 `json:"level"`
	Coverage    map[string]interface{} `json:"coverage"`
	Assumptions []string               `json:"assumptions"`
	WallS       float64                `json:"wall_s"`
	Violations  int                    `json:"violations"`
}

type KnownFinding struct {
	Property string `json:"property"`
	ID       string `json:"id"`
	Status   string `json:"status"` // known | fixed
	Commit   string `json:"commit,omitempty"`
	What     string `json:"what"`
}

func loadKnownFindings() []KnownFinding {
	data, err := os.ReadFile("/verif/known_findings.json")
	if err != nil {
		return nil
	}
	var kf struct {
		Findings []KnownFinding `json:"findings"`
	}
	json.Unmarshal(data, &kf)
	return kf.Findings
}

func runProperty(plan *PropertyPlan, tier string, seed int, verbose bool) int {
	t0 := time.Now()
	ws := NewWorkspace()
	defer ws.Cleanup()
	// collect harness names per pkg
	var specs []HarnessSpec
	for dir, files := range plan.Files {
		var names []string
		for _, f := range files {
			for _, sp := range parseSpecs(dir, f.Content) {
				names = append(names, sp.Name)
				if sp.Tier == "thorough" && tier != "thorough" {
					continue
				}
				specs = append(specs, sp)
			}
		}
		ws.AddHarnessPkg(dir, files, names)
	}
	for _, d := range plan.DumpDirs {
		ws.AddDumpOnlyPkg(d)
	}
	sort.Slice(specs, func(i, j int) bool { return specs[i].Name < specs[j].Name })
	if f := os.Getenv("VERIF_ONLY"); f != "" {
		var keep []HarnessSpec
		for _, sp := range specs {
			if strings.Contains(sp.Name, f) {
				keep = append(keep, sp)
			}
		}
		specs = keep
	}
	fmt.Printf("[%s] %d harnesses, tier=%s\n", plan.ID, len(specs), tier)
	if len(specs) == 0 {
		fmt.Println("BROKEN: no harness selected")
		return 2
	}
	prog, byDir, pkgs, err := loadProgram(ws)
	if err != nil {
		fmt.Println("BROKEN: load:", err)
		return 2
	}
	ws.WriteDumpFiles(pkgs)
	fmt.Printf("[%s] loaded SSA in %.1fs; dumping globals natively...\n", plan.ID, time.Since(t0).Seconds())
	globals, err := ws.DumpGlobals()
	if err != nil {
		fmt.Println("BROKEN: globals snapshot:", err)
		return 2
	}
	fmt.Printf("[%s] %d globals in snapshot (%.1fs)\n", plan.ID, len(globals), time.Since(t0).Seconds())

	known := map[string]bool{}
	kfs := loadKnownFindings()
	for _, k := range kfs {
		if k.Property == plan.ID && k.Status == "known" {
			known[k.ID] = true
		}
	}
	chk := &Checker{Prog: prog, Pkgs: byDir, Globals: globals, KnownIDs: known, Tier: tier, Verbose: verbose}
	chk.ObTimeout = 60 * time.Second
	if tier == "thorough" {
		chk.ObTimeout = 600 * time.Second
	}

	// run harnesses in parallel
	results := make([]*HarnessResult, len(specs))
	workers := 12
	if w := os.Getenv("VERIF_WORKERS"); w != "" {
		workers, _ = strconv.Atoi(w)
	}
	var wg sync.WaitGroup
	sem := make(chan struct{}, workers)
	var mu sync.Mutex
	for i := range specs {
		wg.Add(1)
		sem <- struct{}{}
		go func(i int) {
			defer wg.Done()
			defer func() { <-sem }()
			defer func() {
				if r := recover(); r != nil {
					if debugPanics {
						debugPrintf("engine panic: %v\n%s\n", r, debug.Stack())
					}
					results[i] = &HarnessResult{Spec: specs[i], Broken: fmt.Sprintf("engine panic: %v", r), Reached: map[string]bool{}}
				}
			}()
			r := chk.RunHarness(specs[i])
			results[i] = r
			mu.Lock()
			summarize(r, verbose)
			mu.Unlock()
		}(i)
	}
	wg.Wait()

	// obligations left undecided under load are retried one at a time with a 5x cap
	retried := 0
	for _, r := range results {
		if r == nil || len(r.Retry) == 0 {
			continue
		}
		pf := NewPortfolio([]string{"z3-new", "z3", "cvc5"})
		for _, it := range r.Retry {
			retried++
			tq := time.Now()
			res, m, who, _ := pf.CheckAll(it.As, 5*chk.ObTimeout, it.Vars)
			ob := &r.Obligations[it.Idx]
			ob.Ms += time.Since(tq).Milliseconds()
			switch res {
			case Unsat:
				ob.Verdict, ob.Solver = "unsat", who+" (retry)"
			case Sat:
				ob.Verdict, ob.Solver = "sat", who+" (retry)"
				if m != nil {
					ob.Vector = modelVector(it.Nondets, m)
				}
			}
		}
		pf.Close()
	}
	if retried > 0 {
		fmt.Printf("[%s] %d obligations retried sequentially\n", plan.ID, retried)
	}

	return finish(plan, ws, results, tier, seed, t0, kfs)
}

func summarize(r *HarnessResult, verbose bool) {
	cnt := map[string]int{}
	for _, o := range r.Obligations {
		cnt[o.Verdict]++
	}
	if !verbose && cnt["sat"] == 0 && cnt["unknown"] == 0 && len(r.Aborts) == 0 && r.Broken == "" && r.ExecTime+r.SolverTime < 60*time.Second {
		return
	}
	fmt.Printf("  %-44s mode=%-3s paths=%-4d obl=%-4d unsat=%d triv=%d sat=%d unk=%d aborts=%d exec=%.1fs solve=%.1fs %s\n",
		r.Spec.Name, r.Spec.Mode, r.Paths, len(r.Obligations), cnt["unsat"], cnt["trivial"], cnt["sat"], cnt["unknown"], len(r.Aborts),
		r.ExecTime.Seconds(), r.SolverTime.Seconds(), r.Broken)
	if len(r.Aborts) > 0 {
		seen := map[string]bool{}
		for _, a := range r.Aborts {
			if !seen[a] && len(seen) < 5 {
				fmt.Println("      abort:", a)
			}
			seen[a] = true
		}
	}
	if verbose {
		for _, o := range r.Obligations {
			if o.Verdict == "sat" || o.Verdict == "unknown" {
				fmt.Printf("      %s %s path=%d kf=%s vec=%v (%s)\n", o.Verdict, o.Label, o.Path, o.KF, o.Vector, o.Solver)
			}
		}
	}
}

func finish(plan *PropertyPlan, ws *Workspace, results []*HarnessResult, tier string, seed int, t0 time.Time, kfs []KnownFinding) int {
	broken := []string{}
	undecided := 0
	// 1. native validation of path vectors
	type vecRef struct {
		hr *HarnessResult
		pr *PathRec
	}
	byPkg := map[string][]Vector{}
	refs := map[string][]vecRef{}
	maxPer := 150
	if tier == "thorough" {
		maxPer = 600
	}
	for _, r := range results {
		if r == nil {
			continue
		}
		step := 1
		if len(r.PathRecs) > maxPer {
			step = (len(r.PathRecs) + maxPer - 1) / maxPer
		}
		for i := (seed % step + step) % step; i < len(r.PathRecs); i += step {
			pr := &r.PathRecs[i]
			byPkg[r.Spec.PkgDir] = append(byPkg[r.Spec.PkgDir], Vector{H: r.Spec.Name, In: pr.Vector})
			refs[r.Spec.PkgDir] = append(refs[r.Spec.PkgDir], vecRef{r, pr})
		}
	}
	validated := 0
	for dir, vecs := range byPkg {
		nres, err := ws.RunVectors(dir, vecs, "val")
		if err != nil {
			broken = append(broken, "native validation run failed: "+err.Error())
			continue
		}
		for i, nr := range nres {
			ref := refs[dir][i]
			if msg := comparePath(ref.pr, &nr); msg != "" {
				broken = append(broken, fmt.Sprintf("translator self-test mismatch in %s on %v: %s", ref.hr.Spec.Name, ref.pr.Vector, msg))
			} else {
				validated++
			}
		}
	}
	// 2. candidates (sat obligations) -> native replay
	type cand struct {
		hr *HarnessResult
		ob *ObligationResult
	}
	var cands []cand
	famLabels := map[string]map[string]bool{}
	candVecs := map[string][]Vector{}
	candRefs := map[string][]cand{}
	for _, r := range results {
		if r == nil {
			continue
		}
		if r.Broken != "" {
			broken = append(broken, r.Spec.Name+": "+r.Broken)
		}
		for _, a := range r.Aborts {
			broken = append(broken, r.Spec.Name+": "+a)
			break
		}
		if r.Paths == 0 && r.Broken == "" && len(r.Aborts) == 0 {
			broken = append(broken, r.Spec.Name+": vacuous (no feasible path reaches the end)")
		}
		fam := familyOf(r.Spec.Name)
		if famLabels[fam] == nil {
			famLabels[fam] = map[string]bool{}
		}
		for _, l := range r.Spec.Labels {
			if r.Reached[l] {
				famLabels[fam][l] = true
			} else if !famLabels[fam][l] {
				famLabels[fam][l] = false
			}
		}
		for i := range r.Obligations {
			ob := &r.Obligations[i]
			switch ob.Verdict {
			case "unknown":
				undecided++
			case "sat":
				if ob.Label == "zz:bigW" {
					undecided++
					broken = append(broken, fmt.Sprintf("%s: big.Int model width %d exceeded (bound too small)", r.Spec.Name, r.Spec.BigW))
					continue
				}
				if ob.Vector == nil {
					undecided++
					continue
				}
				c := cand{r, ob}
				cands = append(cands, c)
				candVecs[r.Spec.PkgDir] = append(candVecs[r.Spec.PkgDir], Vector{H: r.Spec.Name, In: ob.Vector})
				candRefs[r.Spec.PkgDir] = append(candRefs[r.Spec.PkgDir], c)
			}
		}
	}
	for fam, m := range famLabels {
		for l, ok := range m {
			if !ok && len(broken) == 0 {
				broken = append(broken, fmt.Sprintf("%s: assertion %q never reached in any instance (vacuous)", fam, l))
			}
		}
	}
	violations := 0
	knownHit := map[string]string{}
	os.MkdirAll(filepath.Join("/verif/replays", plan.ID), 0o755)
	reported := map[string]bool{}
	for dir, vecs := range candVecs {
		nres, err := ws.RunVectors(dir, vecs, "cand")
		if err != nil {
			broken = append(broken, "native replay run failed: "+err.Error())
			continue
		}
		for i, nr := range nres {
			c := candRefs[dir][i]
			confirmed := false
			label := c.ob.Label
			if strings.HasPrefix(label, "zz:uncaught-panic") {
				confirmed = nr.Panic != ""
			} else {
				for _, a := range nr.Asserts {
					if a.Label == label && !a.OK {
						confirmed = true
					}
				}
			}
			if !confirmed {
				broken = append(broken, fmt.Sprintf("counterexample for %s/%s does not reproduce natively: %v (native: %+v)", c.hr.Spec.Name, label, c.ob.Vector, nr))
				continue
			}
			if c.ob.KF != "" {
				if _, ok := knownHit[c.ob.KF]; !ok {
					knownHit[c.ob.KF] = fmt.Sprintf("%s/%s input=%v", c.hr.Spec.Name, label, c.ob.Vector)
				}
				continue
			}
			key := c.hr.Spec.Name + "/" + label
			if reported[key] {
				continue
			}
			reported[key] = true
			violations++
			rp := filepath.Join("/verif/replays", plan.ID, fmt.Sprintf("%s-%s.json", c.hr.Spec.Name, sanitize(label)))
			data, _ := json.MarshalIndent(map[string]interface{}{
				"property": plan.ID, "harness": c.hr.Spec.Name, "pkg_dir": dir, "label": label, "inputs": c.ob.Vector,
				"native": nr, "mode": c.hr.Spec.Mode,
			}, "", " ")
			os.WriteFile(rp, data, 0o644)
			fmt.Printf("VIOLATION property=%s replay=%s\n", plan.ID, rp)
			fmt.Printf("  harness=%s assertion=%q inputs=%v\n", c.hr.Spec.Name, label, c.ob.Vector)
		}
	}
	for _, k := range kfs {
		if k.Property != plan.ID || k.Status != "known" {
			continue
		}
		if hit, ok := knownHit[k.ID]; ok {
			fmt.Printf("KNOWN-FINDING: property=%s %s: %s [%s]\n", plan.ID, k.ID, k.What, hit)
		} else {
			fmt.Printf("note: known finding %s of %s did not reproduce in this run\n", k.ID, plan.ID)
		}
	}
	writeEvidence(plan, results, tier, seed, t0, validated, violations, undecided, broken, knownHit)
	if len(broken) > 0 {
		seen := map[string]bool{}
		for _, b := range broken {
			if !seen[b] {
				fmt.Println("BROKEN:", b)
			}
			seen[b] = true
		}
	}
	if violations > 0 {
		return 1
	}
	if len(broken) > 0 || undecided > 0 {
		if undecided > 0 {
			fmt.Printf("BROKEN: %d obligations undecided (solver unknown/timeout)\n", undecided)
		}
		return 2
	}
	tp, to := 0, 0
	for _, r := range results {
		if r != nil {
			tp += r.Paths
			to += len(r.Obligations)
		}
	}
	fmt.Printf("[%s] OK: %d harnesses, %d symbolic paths, %d obligations discharged, %d paths replayed natively (%.1fs)\n", plan.ID, len(results), tp, to, validated, time.Since(t0).Seconds())
	return 0
}

func sanitize(s string) string {
	var sb strings.Builder
	for _, c := range s {
		if (c >= 'a' && c <= 'z') || (c >= 'A' && c <= 'Z') || (c >= '0' && c <= '9') || c == '-' || c == '_' {
			sb.WriteRune(c)
		} else {
			sb.WriteByte('_')
		}
	}
	r := sb.String()
	if len(r) > 60 {
		r = r[:60]
	}
	return r
}

func comparePath(pr *PathRec, nr *NativeResult) string {
	if nr.Missing {
		return "harness missing natively"
	}
	if nr.Assume {
		return "native run violated an assumption"
	}
	if pr.Panic != nr.Panic {
		if !(pr.Panic != "" && nr.Panic != "" && (pr.Panic == "?" || strings.HasSuffix(nr.Panic, pr.Panic))) {
			return fmt.Sprintf("panic: engine %q native %q", pr.Panic, nr.Panic)
		}
	}
	if len(pr.Asserts) != len(nr.Asserts) {
		return fmt.Sprintf("assert count: engine %d native %d", len(pr.Asserts), len(nr.Asserts))
	}
	for i := range pr.Asserts {
		if pr.Asserts[i].Label != nr.Asserts[i].Label || pr.Asserts[i].OK != nr.Asserts[i].OK {
			return fmt.Sprintf("assert %d: engine %s=%v native %s=%v", i, pr.Asserts[i].Label, pr.Asserts[i].OK, nr.Asserts[i].Label, nr.Asserts[i].OK)
		}
	}
	return ""
}

func writeEvidence(plan *PropertyPlan, results []*HarnessResult, tier string, seed int, t0 time.Time, validated, violations, undecided int, broken []string, knownHit map[string]string) {
	funcs := map[string]bool{}
	stubs := map[string]bool{}
	obl, disch, paths, instrs, feasq := 0, 0, 0, 0, 0
	var solverTime time.Duration
	var samples []interface{}
	wins := map[string]int{}
	bounds := map[string]interface{}{}
	nontrivial := 0
	for _, r := range results {
		if r == nil {
			continue
		}
		for f := range r.Funcs {
			funcs[strings.ReplaceAll(f, modPath+"/", "")] = true
		}
		for s := range r.Stubs {
			stubs[s] = true
		}
		paths += r.Paths
		instrs += r.Instrs
		feasq += r.FeasQueries
		solverTime += r.SolverTime
		for k, v := range r.SolverWins {
			wins[k] += v
		}
		bounds[r.Spec.Name] = fmt.Sprintf("mode=%s unwind=%d bigW=%d paths=%d obligations=%d exec_s=%.1f solve_s=%.1f", r.Spec.Mode, r.Spec.Unwind, r.Spec.BigW, r.Paths, len(r.Obligations), r.ExecTime.Seconds(), r.SolverTime.Seconds())
		for _, o := range r.Obligations {
			obl++
			if o.Verdict == "unsat" || o.Verdict == "trivial" {
				disch++
			}
			if o.Verdict == "unsat" || o.Verdict == "sat" {
				nontrivial++
			}
		}
		if len(samples) < 12 && len(r.Obligations) > 0 {
			o := r.Obligations[len(r.Obligations)/2]
			samples = append(samples, map[string]interface{}{"harness": o.Harness, "assertion": o.Label, "path": o.Path, "verdict": o.Verdict, "solver": o.Solver, "ms": o.Ms})
		}
		if len(samples) < 12 && len(r.PathRecs) > 0 {
			samples = append(samples, map[string]interface{}{"harness": r.Spec.Name, "path_vector_validated_natively": r.PathRecs[0].Vector})
		}
	}
	fl := keys(funcs)
	if len(fl) > 400 {
		fl = append(fl[:400], fmt.Sprintf("... and %d more", len(fl)-400))
	}
	ev := Evidence{
		PropertyID: plan.ID, Tier: tier, Seed: seed, Level: "model_checking",
		Coverage: map[string]interface{}{
			"states":                        maxInt(paths, 1),
			"transitions":                   maxInt(instrs, 1),
			"traces_validated_against_impl": validated,
			"samples":                       samples,
			"evaluations":                   maxInt(obl, 1),
			"distinct_nontrivial":           nontrivial,
			"rule":                          "evaluations = solver obligations (one per assertion per feasible symbolic path of the real SSA); distinct_nontrivial = obligations that needed a solver verdict (not constant-folded); states = feasible symbolic paths; transitions = SSA instructions executed symbolically; traces_validated = path models replayed natively with identical assertion verdicts",
			"obligations":                   obl,
			"discharged":                    disch,
			"undecided":                     undecided,
			"functions_encoded":             fl,
			"functions_encoded_count":       len(funcs),
			"stubs_and_intrinsics":          keys(stubs),
			"bounds":                        bounds,
			"solver_time_s":                 solverTime.Seconds(),
			"feasibility_queries":           feasq,
			"solver_wins":                   wins,
			"known_findings_reproduced":     knownHit,
			"machinery_errors":              broken,
			"exhaustive":                    len(broken) == 0 && undecided == 0,
		},
		Assumptions: planAssumptions[plan.ID],
		WallS:       time.Since(t0).Seconds(),
		Violations:  violations,
	}
	if ev.Assumptions == nil {
		ev.Assumptions = []string{}
	}
	ev.Assumptions = append(ev.Assumptions, "trusted base: golang.org/x/tools/go/ssa, the gosmt executor and its intrinsics (math/big model, stdlib stubs listed in coverage.stubs_and_intrinsics), z3/cvc5")
	os.MkdirAll("/verif/evidence", 0o755)
	data, _ := json.MarshalIndent(ev, "", " ")
	os.WriteFile(filepath.Join("/verif/evidence", plan.ID+".json"), data, 0o644)
}

var planAssumptions = map[string][]string{}

func keys(m map[string]bool) []string {
	var r []string
	for k := range m {
		r = append(r, k)
	}
	sort.Strings(r)
	return r
}

func maxInt(a, b int) int {
	if a > b {
		return a
	}
	return b
}

var famRe = regexp.MustCompile(`_L\d+$`)

// familyOf strips the per-instance suffix (_L<n>) of generated harness names.
func familyOf(name string) string { return famRe.ReplaceAllString(name, "") }
