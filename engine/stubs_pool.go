package main

import (
	"fmt"
	"go/types"
	"os"
	"strings"

	"golang.org/x/tools/go/ssa"
)

// sync.Pool model: Put keeps the object, Get returns the most recently Put object and otherwise
// calls New.  (A real Pool may also drop objects at any time; "always reuse" is the schedule
// under which state left in a pooled object can leak into the next user.)
func (ex *Exec) syncPool(st *State, name string, args []Value, depth int) []Outcome {
	p, ok := args[0].(PtrV)
	if !ok || p.Obj == 0 || len(p.Path) != 0 {
		return []Outcome{{St: st, Kind: OAbort, Abort: "UNSUPPORTED: sync.Pool that is not a whole object"}}
	}
	if name == "(*sync.Pool).Put" {
		if iv, ok := args[1].(IfaceV); ok && iv.T == nil {
			return []Outcome{{St: st, Kind: ORet}}
		}
		if st.Pools == nil {
			st.Pools = map[int][]Value{}
		}
		st.Pools[p.Obj] = append(append([]Value(nil), st.Pools[p.Obj]...), args[1])
		return []Outcome{{St: st, Kind: ORet}}
	}
	if items := st.Pools[p.Obj]; len(items) > 0 {
		v := items[len(items)-1]
		st.Pools[p.Obj] = append([]Value(nil), items[:len(items)-1]...)
		return []Outcome{{St: st, Kind: ORet, Vals: []Value{v}}}
	}
	var nf FuncV
	if sv, ok := st.Heap[p.Obj].(StructV); ok && len(sv.F) >= 6 {
		nf, _ = sv.F[5].(FuncV)
	}
	if nf.Fn == nil && nf.Intr == "" {
		// the snapshot cannot carry func values: take New from the composite literal that
		// initialises the global in the package's init
		if fn := ex.poolNewFromInit(p.Obj); fn != nil {
			nf = FuncV{Fn: fn}
		} else {
			return []Outcome{{St: st, Kind: ORet, Vals: []Value{IfaceV{}}}}
		}
	}
	return ex.callValue(st, nf, nil, nil, depth+1)
}

var debugPanics = os.Getenv("VERIF_PANICS") != ""

func debugPrintf(format string, a ...interface{}) { fmt.Fprintf(os.Stderr, format, a...) }

func (ex *Exec) poolNewFromInit(obj int) *ssa.Function {
	for g, id := range ex.globalObj {
		if id != obj || g.Pkg == nil {
			continue
		}
		initFn := g.Pkg.Func("init")
		if initFn == nil {
			return nil
		}
		for _, b := range initFn.Blocks {
			for _, in := range b.Instrs {
				s, ok := in.(*ssa.Store)
				if !ok {
					continue
				}
				fa, ok := s.Addr.(*ssa.FieldAddr)
				if !ok || fa.X != ssa.Value(g) || fa.Field != 5 {
					continue
				}
				switch f := s.Val.(type) {
				case *ssa.Function:
					return f
				case *ssa.MakeClosure:
					if len(f.Bindings) == 0 {
						return f.Fn.(*ssa.Function)
					}
				}
				return nil
			}
		}
	}
	return nil
}

// linknameTarget: for a body-less package-level function (//go:linkname pull), the unique function
// of the same name and signature in another package of the module that has a body.
func (ex *Exec) linknameTarget(fn *ssa.Function) *ssa.Function {
	if fn.Pkg == nil || fn.Signature.Recv() != nil {
		return nil
	}
	if !strings.HasPrefix(fn.Pkg.Pkg.Path(), modPath) {
		return nil
	}
	var found *ssa.Function
	for _, p := range ex.Prog.AllPackages() {
		if p == fn.Pkg || !strings.HasPrefix(p.Pkg.Path(), modPath) {
			continue
		}
		g := p.Func(fn.Name())
		if g == nil || g.Blocks == nil || !types.Identical(g.Signature, fn.Signature) {
			continue
		}
		if found != nil {
			return nil
		}
		found = g
	}
	return found
}
