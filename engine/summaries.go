package main

// Exact summaries of two pure byte-conversion helpers of package values. They cut the path
// explosion of their byte loops in harnesses where they are only plumbing (C14 shifts, C16
// conversions). The real bodies are verified against the same specification by the raw
// harnesses of C17 (attribute stubs=nosum), so the summaries are checked, not trusted.

import (
	"math/big"

	"golang.org/x/tools/go/ssa"
)

const valuesPkg = "github.com/onflow/cadence/values."

func init() {
	summaryIntrinsics[valuesPkg+"SignedBigIntToSizedBigEndianBytes"] = func(ex *Exec, st *State, fn *ssa.Function, args []Value, depth int) []Value {
		x := ex.bigLoad(st, args[0])
		nT := args[1].(*Term)
		if !nT.IsConst() {
			unsupported("summary SignedBigIntToSizedBigEndianBytes: symbolic size")
		}
		n := int(nT.Val.Int64())
		lim := pow2(8 * n)
		var inRange *Term
		if ex.IntMode {
			inRange = And(ICmp("<=", IntC(new(big.Int).Neg(lim)), x), ICmp("<", x, IntC(lim)))
		} else {
			if 8*n+2 > ex.BigW {
				unsupported("summary: size %d bytes exceeds big model width", n)
			}
			inRange = And(BVCmp("bvsle", BVC(new(big.Int).Neg(lim), ex.BigW), x), BVCmp("bvslt", x, BVC(lim, ex.BigW)))
		}
		if !ex.decide(st, inRange) {
			unsupported("summary SignedBigIntToSizedBigEndianBytes: operand outside [-2^%d, 2^%d) (real code panics there)", 8*n, 8*n)
		}
		vals := make([]Value, n)
		for i := 0; i < n; i++ {
			pos := n - 1 - i
			if ex.IntMode {
				vals[i] = IMod(IDiv(IMod(x, IntC(lim)), IntC(pow2(8*pos))), IntC64(256))
			} else {
				vals[i] = Extract(8*pos+7, 8*pos, x)
			}
		}
		return []Value{ex.newSlice(st, vals, n, ex.byteTerm(0))}
	}
	summaryIntrinsics[valuesPkg+"BigEndianBytesToSignedBigInt"] = func(ex *Exec, st *State, fn *ssa.Function, args []Value, depth int) []Value {
		b := args[0].(SliceV)
		el := ex.sliceElems(st, b)
		n := len(el)
		if n == 0 {
			return []Value{PtrV{Obj: st.NewObj(BigV{T: ex.bigConst(bigZero)})}}
		}
		k8 := IntKind{8, false}
		first := el[0].(*Term)
		var neg *Term
		if ex.IntMode {
			neg = ICmp(">=", first, IntC64(128))
		} else {
			neg = BVCmp("bvuge", first, BVC64(0x80, 8))
		}
		var r *Term
		if ex.IntMode {
			r = IntC64(0)
			for _, e := range el {
				r = IAdd(IMul(r, IntC64(256)), e.(*Term))
			}
			r = Ite(neg, ISub(r, IntC(pow2(8*n))), r)
		} else {
			W := ex.BigW
			if 8*n+1 > W {
				unsupported("summary BigEndianBytesToSignedBigInt: %d bytes exceed big model width", n)
			}
			r = BVC(bigZero, W)
			for i, e := range el {
				sh := uint(8 * (n - 1 - i))
				r = BV2("bvor", r, BV2("bvshl", ZExt(e.(*Term), W), BVC64(uint64(sh), W)))
			}
			r = Ite(neg, BV2("bvsub", r, BVC(pow2(8*n), W)), r)
		}
		// the real function complements the input in place when it is negative
		// (except in the one-byte fast paths, which return before that for b <= 0x7f only)
		for i, e := range el {
			ex.store(st, ex.sliceElemPtr(b, i), Ite(neg, ex.bitnot(e.(*Term), k8), e.(*Term)))
		}
		return []Value{PtrV{Obj: st.NewObj(BigV{T: r})}}
	}
}
