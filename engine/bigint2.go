package main

// bigUnitLen concretizes ceil(bitlen(abs)/unit) of a non-negative big term (forks over the
// feasible values): unit 8 = byte length, unit 64 = word length.
func (ex *Exec) bigUnitLen(st *State, abs *Term, unit int) int {
	if abs.IsConst() {
		return (ex.bigAbsConst(abs).BitLen() + unit - 1) / unit
	}
	var maxUnits int
	if ex.IntMode {
		if abs.Hi == nil {
			unsupported("int-mode length of unbounded big value")
		}
		maxUnits = (abs.Hi.BitLen() + unit - 1) / unit
	} else {
		maxUnits = (ex.BigW + unit - 1) / unit
	}
	if maxUnits*unit > 1100 {
		unsupported("big length bound too large: %d bits", maxUnits*unit)
	}
	for n := 0; n < maxUnits; n++ {
		var lt *Term
		if ex.IntMode {
			lt = ICmp("<", abs, IntC(pow2(unit*n)))
		} else {
			if unit*n >= ex.BigW {
				break
			}
			lt = BVCmp("bvult", abs, BVC(pow2(unit*n), ex.BigW))
		}
		if ex.decide(st, lt) {
			return n
		}
	}
	return maxUnits
}
