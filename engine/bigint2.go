package main

import "sync"

// bigUnitLen concretizes ceil(bitlen(abs)/unit) of a non-negative big term (forks over the
// feasible values): unit 8 = byte length, unit 64 = word length.
func (ex *Exec) bigUnitLen(st *State, abs *Term, unit int) int {
	if abs.IsConst() {
		return (ex.bigAbsConst(abs).BitLen() + unit - 1) / unit
	}
	var maxUnits int
	if ex.IntMode {
		if abs.Hi == nil {
			unsupported("int-mode length of unbounded big value")
		}
		maxUnits = (abs.Hi.BitLen() + unit - 1) / unit
	} else {
		maxUnits = (ex.BigW + unit - 1) / unit
	}
	if maxUnits*unit > 1100 {
		unsupported("big length bound too large: %d bits", maxUnits*unit)
	}
	for n := 0; n < maxUnits; n++ {
		var lt *Term
		if ex.IntMode {
			lt = ICmp("<", abs, IntC(pow2(unit*n)))
		} else {
			if unit*n >= ex.BigW {
				break
			}
			lt = BVCmp("bvult", abs, BVC(pow2(unit*n), ex.BigW))
		}
		if ex.decide(st, lt) {
			return n
		}
	}
	return maxUnits
}

// Abstract lengths of unbounded big values (int-mode): the word length and the bit length are
// functions of the value, so the same value term always gets the same variable.
var (
	absLenMu   sync.Mutex
	bitsLenMap = map[int]*Term{}
	bitLenMap  = map[int]*Term{}
)

func bitsLenVar(a *Term) *Term {
	absLenMu.Lock()
	defer absLenMu.Unlock()
	if n, ok := bitsLenMap[a.ID]; ok {
		return n
	}
	n := NewVar("bitsLen", IntSort)
	n.Lo = bigZero
	bitsLenMap[a.ID] = n
	return n
}

func bitLenVar(a *Term) *Term {
	absLenMu.Lock()
	defer absLenMu.Unlock()
	if n, ok := bitLenMap[a.ID]; ok {
		return n
	}
	n := NewVar("bitLen", IntSort)
	n.Lo = bigZero
	bitLenMap[a.ID] = n
	return n
}

// bindBitsLen fixes the abstract word length of a value term (zzBigWithWords).
func bindBitsLen(a *Term, n *Term) {
	absLenMu.Lock()
	defer absLenMu.Unlock()
	bitsLenMap[a.ID] = n
}
