package main

import (
	"go/types"
	"math/big"

	"golang.org/x/tools/go/ssa"
)

var stringPanicType types.Type = types.Typ[types.String]

// opaqueErrType: a named type with an Error method, standing for errors built by fmt.Errorf etc.
var opaqueErrType = func() types.Type {
	pkg := types.NewPackage("gosmt/opaque", "opaque")
	tn := types.NewTypeName(0, pkg, "Error", nil)
	named := types.NewNamed(tn, types.NewStruct(nil, nil), nil)
	sig := types.NewSignatureType(types.NewVar(0, pkg, "e", named), nil, nil, nil,
		types.NewTuple(types.NewVar(0, pkg, "", types.Typ[types.String])), false)
	named.AddMethod(types.NewFunc(0, pkg, "Error", sig))
	return named
}()

func (ex *Exec) globalInit(st *State, g *ssa.Global) Value {
	t := g.Type().Underlying().(*types.Pointer).Elem()
	key := ""
	if g.Pkg != nil {
		key = g.Pkg.Pkg.Path() + "." + g.Name()
	}
	if snap, ok := ex.Globals[key]; ok && !snapIsOpaque(snap) && !ex.snapIsFuncMap(snap, t, key) {
		cache := map[float64]int{}
		return ex.decodeSnap(st, snap, t, key, cache)
	}
	// no snapshot: zero value is only right for globals without initialiser; allow for empty
	// structs and for harness-package globals declared without initialiser.
	if s, ok := t.Underlying().(*types.Struct); ok && s.NumFields() == 0 {
		return StructV{}
	}
	if g.Pkg != nil && ex.lazyInitOK(g.Pkg) {
		return ex.lazyInit(st, g)
	}
	if g.Pkg != nil && !ex.globalInitTried[key] {
		if fn := findGlobalInitializerCall(g); fn != nil {
			panic(abortSignal{Kind: "NEEDINIT", Msg: "global:" + key})
		}
		if sl := findGlobalInitSlice(g); sl != nil {
			panic(abortSignal{Kind: "NEEDINIT", Msg: "global:" + key})
		}
	}
	return UninitV{Name: key}
}

func (ex *Exec) decodeSnap(st *State, snap interface{}, t types.Type, name string, cache map[float64]int) Value {
	m, ok := snap.(map[string]interface{})
	if !ok {
		return UninitV{Name: name}
	}
	kind, _ := m["k"].(string)
	bigOf := func() *big.Int {
		s, _ := m["v"].(string)
		v, _ := new(big.Int).SetString(s, 10)
		if v == nil {
			v = new(big.Int)
		}
		return v
	}
	switch kind {
	case "bool":
		b, _ := m["v"].(bool)
		return BoolC(b)
	case "int":
		k, ok := basicIntKind(t)
		if !ok {
			return UninitV{Name: name}
		}
		return ex.intConst(bigOf(), k)
	case "string":
		s, _ := m["v"].(string)
		return StrV{S: s}
	case "nil":
		return ex.zero(t)
	case "big":
		if v := bigOf(); !ex.IntMode && v.BitLen() >= ex.BigW {
			// does not fit the model width: only an error if it is actually read as a number
			return PtrV{Obj: st.NewObj(OpaqueV{Desc: "big constant wider than bigw: " + name})}
		}
		return PtrV{Obj: st.NewObj(BigV{T: ex.bigConst(bigOf())})}
	case "bigval":
		if v := bigOf(); !ex.IntMode && v.BitLen() >= ex.BigW {
			return OpaqueV{Desc: "big constant wider than bigw: " + name}
		}
		return BigV{T: ex.bigConst(bigOf())}
	case "ptr":
		id, _ := m["id"].(float64)
		if obj, ok := cache[id]; ok && id != 0 {
			return PtrV{Obj: obj}
		}
		pt, ok := t.Underlying().(*types.Pointer)
		if !ok {
			return UninitV{Name: name}
		}
		obj := st.NewObj(OpaqueV{Desc: name})
		cache[id] = obj
		st.Heap[obj] = ex.decodeSnap(st, m["v"], pt.Elem(), name, cache)
		return PtrV{Obj: obj}
	case "iface":
		tm, _ := m["t"].(map[string]interface{})
		dt := ex.lookupType(tm)
		if dt == nil {
			str, _ := tm["str"].(string)
			// unknown dynamic type: keep a distinct opaque non-nil value
			return IfaceV{T: opaqueErrType, V: OpaqueV{Desc: name + ":" + str}}
		}
		return IfaceV{T: dt, V: ex.decodeSnap(st, m["v"], dt, name, cache)}
	case "struct":
		s, ok := t.Underlying().(*types.Struct)
		fs, _ := m["f"].([]interface{})
		if !ok || len(fs) != s.NumFields() {
			return UninitV{Name: name}
		}
		f := make([]Value, len(fs))
		for i := range fs {
			f[i] = ex.decodeSnap(st, fs[i], s.Field(i).Type(), name, cache)
		}
		return StructV{F: f}
	case "array":
		a, ok := t.Underlying().(*types.Array)
		es, _ := m["e"].([]interface{})
		if !ok {
			return UninitV{Name: name}
		}
		e := make([]Value, len(es))
		for i := range es {
			e[i] = ex.decodeSnap(st, es[i], a.Elem(), name, cache)
		}
		return ArrayV{E: e}
	case "slice":
		sl, ok := t.Underlying().(*types.Slice)
		es, _ := m["e"].([]interface{})
		if !ok {
			return UninitV{Name: name}
		}
		e := make([]Value, len(es))
		for i := range es {
			e[i] = ex.decodeSnap(st, es[i], sl.Elem(), name, cache)
		}
		return ex.newSlice(st, e, len(e), ex.zeroSafe(sl.Elem()))
	case "map":
		mt, ok := t.Underlying().(*types.Map)
		ks, _ := m["keys"].([]interface{})
		vs, _ := m["vals"].([]interface{})
		if !ok || len(ks) != len(vs) {
			return UninitV{Name: name}
		}
		mo := &MapObj{}
		for i := range ks {
			mo.Keys = append(mo.Keys, ex.decodeSnap(st, ks[i], mt.Key(), name, cache))
			mo.Vals = append(mo.Vals, ex.decodeSnap(st, vs[i], mt.Elem(), name, cache))
		}
		return MapV{Obj: st.NewObj(mo)}
	}
	return OpaqueV{Desc: "global " + name}
}

func (ex *Exec) zeroSafe(t types.Type) (v Value) {
	defer func() {
		if r := recover(); r != nil {
			v = OpaqueV{Desc: "zero"}
		}
	}()
	return ex.zero(t)
}

func (ex *Exec) lookupType(tm map[string]interface{}) types.Type {
	if tm == nil {
		return nil
	}
	pkgPath, _ := tm["pkg"].(string)
	name, _ := tm["name"].(string)
	ptr, _ := tm["ptr"].(bool)
	var base types.Type
	if pkgPath == "" {
		for _, b := range types.Typ {
			if b.Name() == name {
				base = b
			}
		}
	} else {
		for _, p := range ex.Prog.AllPackages() {
			if p.Pkg.Path() == pkgPath {
				if o := p.Pkg.Scope().Lookup(name); o != nil {
					if tn, ok := o.(*types.TypeName); ok {
						base = tn.Type()
					}
				}
			}
		}
	}
	if base == nil {
		return nil
	}
	if ptr {
		return types.NewPointer(base)
	}
	return base
}

// ---- lazy package init for small leaf packages (stdlib) that have no snapshot

var lazyInitPkgs = map[string]bool{
	"unicode/utf8": true, "strconv": true, "encoding/binary": true, "math/bits": true, "encoding/hex": true,
	"errors": true, "strings": true, "bytes": true, "math": true, "unicode": true, "io": true,
	"github.com/onflow/fixed-point": true,
}

func (ex *Exec) lazyInitOK(p *ssa.Package) bool { return lazyInitPkgs[p.Pkg.Path()] }

// lazyInit: globals of leaf stdlib packages are initialised by running the package's init
// function on the base state (from which every harness state is cloned). When a harness first
// touches such a package the run is aborted with NEEDINIT, the driver runs the init and restarts.
func (ex *Exec) lazyInit(st *State, g *ssa.Global) Value {
	pk := g.Pkg.Pkg.Path()
	if ex.lazyDone[pk] {
		// init ran but did not set this global's object in this state: zero value is right
		t := g.Type().Underlying().(*types.Pointer).Elem()
		return ex.zeroSafe(t)
	}
	panic(abortSignal{Kind: "NEEDINIT", Msg: pk})
}

// RunPkgInit executes the init function of package pk on the base state.
func (ex *Exec) RunPkgInit(pk string) string {
	if ex.lazyDone == nil {
		ex.lazyDone = map[string]bool{}
	}
	ex.lazyDone[pk] = true
	var pkg *ssa.Package
	for _, p := range ex.Prog.AllPackages() {
		if p.Pkg.Path() == pk {
			pkg = p
		}
	}
	if pkg == nil {
		return "package not found"
	}
	initFn := pkg.Func("init")
	if initFn == nil {
		return ""
	}
	st := ex.Base
	for _, m := range pkg.Members {
		if gg, ok := m.(*ssa.Global); ok {
			gt := gg.Type().Underlying().(*types.Pointer).Elem()
			st.Heap[ex.globalObjID(gg)] = ex.zeroSafe(gt)
		}
	}
	ex.inLazyInit = pk
	savedPinned := ex.Pinned
	ex.Pinned = nil
	outs := ex.CallFn(st, initFn, nil, nil, 1)
	ex.Pinned = savedPinned
	ex.inLazyInit = ""
	if len(outs) == 1 && outs[0].Kind == ORet {
		ex.Base = outs[0].St
		return ""
	}
	if len(outs) == 1 {
		return outs[0].Abort
	}
	return "init forked"
}

func (ex *Exec) globalObjID(g *ssa.Global) int {
	if id, ok := ex.globalObj[g]; ok {
		return id
	}
	id := -(len(ex.globalObj) + 1)
	ex.globalObj[g] = id
	return id
}
