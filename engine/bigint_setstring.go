package main

// big.Int.SetString(s, 10) on a symbolic string of concrete length: per the math/big
// documentation, base 10 accepts an optional sign followed by one or more decimal digits (no
// underscores, which are only allowed with base 0; no spaces).

import (
	"math/big"

	"golang.org/x/tools/go/ssa"
)

func init() {
	regBig("SetString", func(ex *Exec, st *State, fn *ssa.Function, args []Value, depth int) []Value {
		sv := args[1].(StrV)
		bt := args[2].(*Term)
		if !bt.IsConst() {
			unsupported("big.SetString symbolic base")
		}
		base := int(ex.constInt(bt))
		ex.bigLoad(st, args[0])
		if s, ok := sv.Concrete(); ok {
			v, good := new(big.Int).SetString(s, base)
			if !good {
				return []Value{PtrV{}, False()}
			}
			ex.bigStore(st, args[0], ex.bigConst(v))
			return []Value{args[0], True()}
		}
		if base == 0 {
			return ex.bigSetStringBase0(st, args, sv)
		}
		if base != 10 && base != 2 && base != 8 && base != 16 {
			unsupported("big.SetString of a symbolic string in base %d", base)
		}
		bs := ex.strBytes(sv)
		k8 := IntKind{8, false}
		isCh := func(b *Term, c byte) *Term { return Eq(b, ex.intConst(big.NewInt(int64(c)), k8)) }
		inRange := func(b *Term, lo, hi byte) *Term {
			if ex.IntMode {
				return And(ICmp(">=", b, IntC64(int64(lo))), ICmp("<=", b, IntC64(int64(hi))))
			}
			return And(BVCmp("bvuge", b, BVC64(uint64(lo), 8)), BVCmp("bvule", b, BVC64(uint64(hi), 8)))
		}
		topDigit := byte('9')
		if base < 10 {
			topDigit = byte('0' + base - 1)
		}
		isDigit := func(b *Term) *Term {
			d := inRange(b, '0', topDigit)
			if base == 16 {
				d = Or(d, Or(inRange(b, 'a', 'f'), inRange(b, 'A', 'F')))
			}
			return d
		}
		n := len(bs)
		if n == 0 {
			return []Value{PtrV{}, False()}
		}
		hasSign := Or(isCh(bs[0], '+'), isCh(bs[0], '-'))
		// decide the sign structure (forks at most 3 ways), then digits
		signed := ex.decide(st, hasSign)
		start := 0
		neg := False()
		if signed {
			start = 1
			neg = isCh(bs[0], '-')
		}
		if start >= n {
			return []Value{PtrV{}, False()}
		}
		allDigits := True()
		for i := start; i < n; i++ {
			allDigits = And(allDigits, isDigit(bs[i]))
		}
		if !ex.decide(st, allDigits) {
			return []Value{PtrV{}, False()}
		}
		var val *Term
		if ex.IntMode {
			val = IntC64(0)
			for i := start; i < n; i++ {
				d := ISub(bs[i], IntC64('0'))
				if base == 16 {
					d = Ite(ICmp("<=", bs[i], IntC64('9')), d, Ite(ICmp(">=", bs[i], IntC64('a')), ISub(bs[i], IntC64('a'-10)), ISub(bs[i], IntC64('A'-10))))
				}
				val = IAdd(IMul(val, IntC64(int64(base))), d)
			}
			val = Ite(neg, INeg(val), val)
		} else {
			W := ex.BigW
			val = BVC(bigZero, W)
			for i := start; i < n; i++ {
				c := ZExt(bs[i], W)
				d := BV2("bvsub", c, BVC64('0', W))
				if base == 16 {
					d = Ite(BVCmp("bvule", bs[i], BVC64('9', 8)), d, Ite(BVCmp("bvuge", bs[i], BVC64('a', 8)), BV2("bvsub", c, BVC64('a'-10, W)), BV2("bvsub", c, BVC64('A'-10, W))))
				}
				val = BV2("bvadd", BV2("bvmul", val, BVC64(uint64(base), W)), d)
			}
			val = Ite(neg, BVNeg(val), val)
		}
		ex.bigStore(st, args[0], val)
		return []Value{args[0], True()}
	})
}

// bigSetStringBase0: base 0 per the math/big documentation and natconv.go's scan: optional sign,
// then "0b"/"0o"/"0x" (either case) select base 2/8/16, a leading "0" selects base 8, otherwise
// base 10; an underscore may separate digits or the prefix and a digit (never first without a
// prefix, never doubled, never last); at least one digit unless the text is the octal prefix alone.
// The structure (which bytes are underscores / digits / prefix letters) is decided by forking, the
// digit values stay symbolic.
func (ex *Exec) bigSetStringBase0(st *State, args []Value, sv StrV) []Value {
	bs := ex.strBytes(sv)
	k8 := IntKind{8, false}
	isCh := func(b *Term, c byte) *Term { return Eq(b, ex.intConst(big.NewInt(int64(c)), k8)) }
	inRange := func(b *Term, lo, hi byte) *Term {
		if ex.IntMode {
			return And(ICmp(">=", b, IntC64(int64(lo))), ICmp("<=", b, IntC64(int64(hi))))
		}
		return And(BVCmp("bvuge", b, BVC64(uint64(lo), 8)), BVCmp("bvule", b, BVC64(uint64(hi), 8)))
	}
	fail := []Value{PtrV{}, False()}
	n := len(bs)
	if n == 0 {
		return fail
	}
	pos := 0
	neg := False()
	if ex.decide(st, Or(isCh(bs[0], '+'), isCh(bs[0], '-'))) {
		neg = isCh(bs[0], '-')
		pos = 1
	}
	if pos >= n {
		return fail
	}
	b := 10
	prefix := byte(0)
	prevDigit := false
	count := 0
	if ex.decide(st, isCh(bs[pos], '0')) {
		prevDigit = true
		count = 1
		pos++
		if pos < n {
			switch {
			case ex.decide(st, Or(isCh(bs[pos], 'b'), isCh(bs[pos], 'B'))):
				b, prefix = 2, 'p'
			case ex.decide(st, Or(isCh(bs[pos], 'o'), isCh(bs[pos], 'O'))):
				b, prefix = 8, 'p'
			case ex.decide(st, Or(isCh(bs[pos], 'x'), isCh(bs[pos], 'X'))):
				b, prefix = 16, 'p'
			default:
				b, prefix = 8, '0'
			}
			count = 0
			if prefix == 'p' {
				pos++
			}
		}
	}
	isDigit := func(t *Term) *Term {
		top := byte('9')
		if b < 10 {
			top = byte('0' + b - 1)
		}
		d := inRange(t, '0', top)
		if b == 16 {
			d = Or(d, Or(inRange(t, 'a', 'f'), inRange(t, 'A', 'F')))
		}
		return d
	}
	var digits []*Term
	invalSep, prevUnderscore := false, false
	for ; pos < n; pos++ {
		if ex.decide(st, isCh(bs[pos], '_')) {
			if !prevDigit {
				invalSep = true
			}
			prevDigit, prevUnderscore = false, true
			continue
		}
		if !ex.decide(st, isDigit(bs[pos])) {
			return fail // not consumed entirely
		}
		digits = append(digits, bs[pos])
		prevDigit, prevUnderscore = true, false
		count++
	}
	if invalSep || prevUnderscore {
		return fail
	}
	if count == 0 && prefix != '0' {
		return fail
	}
	var val *Term
	if ex.IntMode {
		val = IntC64(0)
		for _, c := range digits {
			d := ISub(c, IntC64('0'))
			if b == 16 {
				d = Ite(ICmp("<=", c, IntC64('9')), d, Ite(ICmp(">=", c, IntC64('a')), ISub(c, IntC64('a'-10)), ISub(c, IntC64('A'-10))))
			}
			val = IAdd(IMul(val, IntC64(int64(b))), d)
		}
		val = Ite(neg, INeg(val), val)
	} else {
		W := ex.BigW
		val = BVC(bigZero, W)
		for _, c8 := range digits {
			c := ZExt(c8, W)
			d := BV2("bvsub", c, BVC64('0', W))
			if b == 16 {
				d = Ite(BVCmp("bvule", c8, BVC64('9', 8)), d, Ite(BVCmp("bvuge", c8, BVC64('a', 8)), BV2("bvsub", c, BVC64('a'-10, W)), BV2("bvsub", c, BVC64('A'-10, W))))
			}
			val = BV2("bvadd", BV2("bvmul", val, BVC64(uint64(b), W)), d)
		}
		val = Ite(neg, BVNeg(val), val)
	}
	ex.bigStore(st, args[0], val)
	return []Value{args[0], True()}
}
