package main

// big.Int.SetString(s, 10) on a symbolic string of concrete length: per the math/big
// documentation, base 10 accepts an optional sign followed by one or more decimal digits (no
// underscores, which are only allowed with base 0; no spaces).

import (
	"math/big"

	"golang.org/x/tools/go/ssa"
)

func init() {
	regBig("SetString", func(ex *Exec, st *State, fn *ssa.Function, args []Value, depth int) []Value {
		sv := args[1].(StrV)
		bt := args[2].(*Term)
		if !bt.IsConst() {
			unsupported("big.SetString symbolic base")
		}
		base := int(ex.constInt(bt))
		ex.bigLoad(st, args[0])
		if s, ok := sv.Concrete(); ok {
			v, good := new(big.Int).SetString(s, base)
			if !good {
				return []Value{PtrV{}, False()}
			}
			ex.bigStore(st, args[0], ex.bigConst(v))
			return []Value{args[0], True()}
		}
		if base != 10 && base != 2 && base != 8 && base != 16 {
			unsupported("big.SetString of a symbolic string in base %d", base)
		}
		bs := ex.strBytes(sv)
		k8 := IntKind{8, false}
		isCh := func(b *Term, c byte) *Term { return Eq(b, ex.intConst(big.NewInt(int64(c)), k8)) }
		inRange := func(b *Term, lo, hi byte) *Term {
			if ex.IntMode {
				return And(ICmp(">=", b, IntC64(int64(lo))), ICmp("<=", b, IntC64(int64(hi))))
			}
			return And(BVCmp("bvuge", b, BVC64(uint64(lo), 8)), BVCmp("bvule", b, BVC64(uint64(hi), 8)))
		}
		topDigit := byte('9')
		if base < 10 {
			topDigit = byte('0' + base - 1)
		}
		isDigit := func(b *Term) *Term {
			d := inRange(b, '0', topDigit)
			if base == 16 {
				d = Or(d, Or(inRange(b, 'a', 'f'), inRange(b, 'A', 'F')))
			}
			return d
		}
		n := len(bs)
		if n == 0 {
			return []Value{PtrV{}, False()}
		}
		hasSign := Or(isCh(bs[0], '+'), isCh(bs[0], '-'))
		// decide the sign structure (forks at most 3 ways), then digits
		signed := ex.decide(st, hasSign)
		start := 0
		neg := False()
		if signed {
			start = 1
			neg = isCh(bs[0], '-')
		}
		if start >= n {
			return []Value{PtrV{}, False()}
		}
		allDigits := True()
		for i := start; i < n; i++ {
			allDigits = And(allDigits, isDigit(bs[i]))
		}
		if !ex.decide(st, allDigits) {
			return []Value{PtrV{}, False()}
		}
		var val *Term
		if ex.IntMode {
			val = IntC64(0)
			for i := start; i < n; i++ {
				d := ISub(bs[i], IntC64('0'))
				if base == 16 {
					d = Ite(ICmp("<=", bs[i], IntC64('9')), d, Ite(ICmp(">=", bs[i], IntC64('a')), ISub(bs[i], IntC64('a'-10)), ISub(bs[i], IntC64('A'-10))))
				}
				val = IAdd(IMul(val, IntC64(int64(base))), d)
			}
			val = Ite(neg, INeg(val), val)
		} else {
			W := ex.BigW
			val = BVC(bigZero, W)
			for i := start; i < n; i++ {
				c := ZExt(bs[i], W)
				d := BV2("bvsub", c, BVC64('0', W))
				if base == 16 {
					d = Ite(BVCmp("bvule", bs[i], BVC64('9', 8)), d, Ite(BVCmp("bvuge", bs[i], BVC64('a', 8)), BV2("bvsub", c, BVC64('a'-10, W)), BV2("bvsub", c, BVC64('A'-10, W))))
				}
				val = BV2("bvadd", BV2("bvmul", val, BVC64(uint64(base), W)), d)
			}
			val = Ite(neg, BVNeg(val), val)
		}
		ex.bigStore(st, args[0], val)
		return []Value{args[0], True()}
	})
}
