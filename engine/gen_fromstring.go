package main

import (
	"fmt"
	"math/big"
	"strings"
)

// C17: fromString on canonical decimal renderings of a symbolic value, for the native-width
// integer types, at the digit counts around the type's maximum: accepted exactly when the value
// is in the type's range, and the parsed value is the value (the range check depends on the width).
func genC17Decimal(tier string) (map[string]string, error) {
	var sb strings.Builder
	sb.WriteString(`//verif:pkg interpreter
//verif:dump sema
//verif:dump common
//verif:dump values
//verif:assume fromString range check (native-width integer types): the decimal rendering (no leading zeros, optional '-') of an arbitrary value with d-1, d or d+1 digits, d = number of digits of the type's maximum; values with other digit counts are outside this harness (short strings are covered by the grammar harness)
package PKGNAME

// zzDecimalDigits: n arbitrary decimal digits without a leading zero (for n > 1), as characters,
// and the value they denote
func zzDecimalDigits(n int) ([]byte, uint64) {
	b := make([]byte, n)
	var v uint64
	for i := 0; i < n; i++ {
		d := zzNondetUint8()
		zzAssume(d <= 9)
		if i == 0 && n > 1 {
			zzAssume(d >= 1)
		}
		b[i] = '0' + d
		v = v*10 + uint64(d)
	}
	return b, v
}
`)
	for _, t := range append(append([]numType(nil), intTypes...), wordTypes...) {
		if t.Native == "" {
			continue
		}
		var max *big.Int
		if t.Signed {
			max = new(big.Int).Sub(new(big.Int).Lsh(big.NewInt(1), uint(t.Bits-1)), big.NewInt(1))
		} else {
			max = new(big.Int).Sub(new(big.Int).Lsh(big.NewInt(1), uint(t.Bits)), big.NewInt(1))
		}
		d := len(max.String())
		for _, n := range []int{d - 1, d, d + 1} {
			if n < 1 || n > 19 {
				continue // 10^n must fit in uint64 for the harness arithmetic
			}
			fmt.Fprintf(&sb, "\n//verif:harness property=C17 mode=int unwind=80 stubs=metering steps=30000000 timeout=120\nfunc ZZ_C17_FromString_%s_Decimal_L%d() {\n", t.Name, n)
			fmt.Fprintf(&sb, "\tdigits, v := zzDecimalDigits(%d)\n", n)
			if t.Signed {
				sb.WriteString("\tneg := zzNondetBool()\n\ts := string(digits)\n\tif neg {\n\t\ts = \"-\" + s\n\t}\n")
				fmt.Fprintf(&sb, "\tinRange := zzOr(zzAnd(!neg, v <= %s), zzAnd(neg, v <= %s))\n", max.String(), new(big.Int).Add(max, big.NewInt(1)).String())
			} else {
				sb.WriteString("\ts := string(digits)\n")
				fmt.Fprintf(&sb, "\tinRange := v <= %s\n", max.String())
			}
			fmt.Fprintf(&sb, "\tout := zzCatch(func() any { return StringValueParsers[%q].Parser(nil, s) })\n", t.Name)
			sb.WriteString("\tzzAssert(\"no-crash\", !out.Panicked)\n\tif out.Panicked {\n\t\treturn\n\t}\n")
			sb.WriteString("\tsome, accepted := out.Value.(*SomeValue)\n")
			sb.WriteString("\tzzAssert(\"accepted-iff-in-range\", accepted == inRange)\n\tif !accepted || !inRange {\n\t\treturn\n\t}\n")
			if t.Signed {
				fmt.Fprintf(&sb, "\tgot := int64(some.value.(%sValue))\n", t.Name)
				sb.WriteString("\twant := int64(v)\n\tif neg {\n\t\twant = -int64(v)\n\t}\n\tzzAssert(\"round-trip-value\", got == want)\n}\n")
			} else {
				fmt.Fprintf(&sb, "\tzzAssert(\"round-trip-value\", uint64(some.value.(%sValue)) == v)\n}\n", t.Name)
			}
		}
	}
	return map[string]string{"decimal": sb.String()}, nil
}

func init() {
	generators["C17"] = append(generators["C17"], genC17Decimal)
}
