package main

// Contract stubs for the 64-bit part of github.com/onflow/fixed-point used by cadence:
// Fix64/UFix64 FMD (multiplyDivide) and the narrowing conversions Fix128.ToFix64 /
// UFix128.ToUFix64 (value / 10^16 rounded by the mode; same error contract as FMD).

import (
	"math/big"

	"golang.org/x/tools/go/ssa"
)

func (ex *Exec) fix64ToMath(v Value, signed bool) *Term {
	t, ok := v.(*Term)
	if !ok {
		unsupported("fix64 value %s", describe(v))
	}
	if signed {
		return Ite(ICmp(">=", t, IntC(pow2(63))), ISub(t, IntC(pow2(64))), t)
	}
	return t
}

// fmdContract64: like fmdContract but for 64-bit results (raw64 = uint64 representation).
func (ex *Exec) fmdContract64(st *State, N, D *Term, mode *Term, signed bool) []Value {
	zero := IntC64(0)
	if ex.decide(st, Eq(D, zero)) {
		return []Value{zero, ex.fixErr("DivisionByZeroError")}
	}
	R := ex.roundedQuotient(N, D, mode)
	var lo, hi *big.Int
	if signed {
		lo, hi = new(big.Int).Neg(pow2(63)), new(big.Int).Sub(pow2(63), bigOne)
	} else {
		lo, hi = big.NewInt(0), new(big.Int).Sub(pow2(64), bigOne)
	}
	if ex.decide(st, ICmp(">", R, IntC(hi))) {
		return []Value{zero, ex.fixErr("PositiveOverflowError")}
	}
	if ex.decide(st, ICmp("<", R, IntC(lo))) {
		return []Value{zero, ex.fixErr("NegativeOverflowError")}
	}
	if ex.decide(st, And(Not(Eq(N, zero)), Eq(R, zero))) {
		return []Value{zero, ex.fixErr("UnderflowError")}
	}
	return []Value{IMod(R, IntC(pow2(64))), IfaceV{}}
}

func (ex *Exec) roundedQuotient(N, D, mode *Term) *Term {
	qt := tdiv(N, D)
	rem := ISub(N, IMul(qt, D))
	hasRem := Not(Eq(rem, IntC64(0)))
	negQ := Not(Eq(ICmp("<", N, IntC64(0)), ICmp("<", D, IntC64(0))))
	away := Ite(negQ, ISub(qt, IntC64(1)), IAdd(qt, IntC64(1)))
	twice := IMul(IntC64(2), absI(rem))
	absD := absI(D)
	odd := Eq(IMod(absI(qt), IntC64(2)), IntC64(1))
	rAway := Ite(hasRem, away, qt)
	rHalfAway := Ite(And(hasRem, ICmp(">=", twice, absD)), away, qt)
	rHalfEven := Ite(And(hasRem, Or(ICmp(">", twice, absD), And(Eq(twice, absD), odd))), away, qt)
	return Ite(Eq(mode, IntC64(0)), qt, Ite(Eq(mode, IntC64(1)), rAway, Ite(Eq(mode, IntC64(2)), rHalfAway, rHalfEven)))
}

func init() {
	needInt := func(ex *Exec) {
		if !ex.IntMode {
			unsupported("fixed-point contract stubs need mode=int")
		}
	}
	for _, t := range []struct {
		recv   string
		signed bool
	}{{"Fix64", true}, {"UFix64", false}} {
		t := t
		intrinsics["("+fixPkg+"."+t.recv+").FMD"] = func(ex *Exec, st *State, fn *ssa.Function, args []Value, depth int) []Value {
			needInt(ex)
			a, b, c := ex.fix64ToMath(args[0], t.signed), ex.fix64ToMath(args[1], t.signed), ex.fix64ToMath(args[2], t.signed)
			return ex.fmdContract64(st, IMul(a, b), c, args[3].(*Term), t.signed)
		}
	}
	scale := IntC(new(big.Int).Exp(big.NewInt(10), big.NewInt(16), nil))
	intrinsics["("+fixPkg+".Fix128).ToFix64"] = func(ex *Exec, st *State, fn *ssa.Function, args []Value, depth int) []Value {
		needInt(ex)
		return ex.fmdContract64(st, ex.fix128ToMath(args[0], true), scale, args[1].(*Term), true)
	}
	intrinsics["("+fixPkg+".UFix128).ToUFix64"] = func(ex *Exec, st *State, fn *ssa.Function, args []Value, depth int) []Value {
		needInt(ex)
		return ex.fmdContract64(st, ex.fix128ToMath(args[0], false), scale, args[1].(*Term), false)
	}
}
