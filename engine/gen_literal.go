package main

import (
	"fmt"
	"strings"
)

const c40Header = `//verif:pkg sema
//verif:dump fixedpoint
//verif:assume integer literals: the parsed value is an arbitrary mathematical integer (lexing, base prefixes and underscores are outside: parseIntegerLiteral uses big.Int.SetString in non-decimal bases)
//verif:assume fixed-point literals: (negative, unsignedInteger >= 0, fractional, parsedScale) as produced by the parser, fractional < 10^parsedScale, parsedScale <= scale+2; negative zero for unsigned types is outside the claim
//verif:assume type ranges in the oracle come from the language reference (2^n bounds, scales 8 and 24), the checker's ranges from the real sema type objects (snapshot of the real build)
package PKGNAME

import (
	"math/big"

	"github.com/onflow/cadence/ast"
	"github.com/onflow/cadence/fixedpoint"
)

var _ = big.NewInt
var _ ast.Expression
var _ = fixedpoint.Fix64Scale

func zzPow10(n int) *big.Int {
	r := big.NewInt(1)
	for i := 0; i < n; i++ {
		r = new(big.Int).Mul(r, big.NewInt(10))
	}
	return r
}
`

func genC40(tier string) (map[string]string, error) {
	var sb strings.Builder
	sb.WriteString(c40Header)
	all := append(append([]numType(nil), intTypes...), wordTypes...)
	for _, t := range all {
		fmt.Fprintf(&sb, "\n//verif:harness property=C40 mode=int\nfunc ZZ_C40_IntegerLiteral_%s() {\n", t.Name)
		sb.WriteString("\tV := zzNondetBig()\n")
		fmt.Fprintf(&sb, "\tout := zzCatch(func() any {\n\t\treturn CheckIntegerLiteral(nil, &ast.IntegerExpression{Value: new(big.Int).Set(V), Base: 10}, %sType, nil)\n\t})\n", t.Name)
		sb.WriteString("\tzzAssert(\"no-crash\", !out.Panicked)\n\tif out.Panicked {\n\t\treturn\n\t}\n")
		cond := "true"
		if mn := t.specMin(); mn != "" {
			cond = fmt.Sprintf("V.Cmp(%s) >= 0", mn)
		}
		if mx := t.specMax(); mx != "" {
			cond = fmt.Sprintf("zzAnd(%s, V.Cmp(%s) <= 0)", cond, mx)
		}
		fmt.Fprintf(&sb, "\tzzAssert(\"accepted-iff-in-range\", out.Value.(bool) == (%s))\n}\n", cond)
	}
	fixed := []struct {
		Name   string
		Signed bool
		Bits   int
		Scale  int
	}{{"Fix64", true, 64, 8}, {"UFix64", false, 64, 8}, {"Fix128", true, 128, 24}, {"UFix128", false, 128, 24}}
	for _, t := range fixed {
		var mn, mx string
		if t.Signed {
			mn = fmt.Sprintf("new(big.Int).Neg(new(big.Int).Lsh(big.NewInt(1), %d))", t.Bits-1)
			mx = fmt.Sprintf("new(big.Int).Sub(new(big.Int).Lsh(big.NewInt(1), %d), big.NewInt(1))", t.Bits-1)
		} else {
			mn = "new(big.Int)"
			mx = fmt.Sprintf("new(big.Int).Sub(new(big.Int).Lsh(big.NewInt(1), %d), big.NewInt(1))", t.Bits)
		}
		pre := func() string {
			var p strings.Builder
			p.WriteString("\tneg := zzNondetBool()\n\tU := zzNondetBig()\n\tF := zzNondetBig()\n")
			fmt.Fprintf(&p, "\tps := zzChoice(%d)\n", t.Scale+3)
			p.WriteString("\tzzAssume(U.Sign() >= 0)\n\tzzAssume(F.Sign() >= 0)\n\tzzAssume(F.Cmp(zzPow10(ps)) < 0)\n")
			if !t.Signed {
				p.WriteString("\tzzAssume(zzOr(!neg, zzOr(U.Sign() != 0, F.Sign() != 0)))\n")
			}
			return p.String()
		}
		oracle := func() string {
			var p strings.Builder
			fmt.Fprintf(&p, "\tscaleOK := ps <= %d\n\tinRange := false\n\traw := new(big.Int)\n\tif scaleOK {\n", t.Scale)
			fmt.Fprintf(&p, "\t\tmag := new(big.Int).Add(new(big.Int).Mul(U, zzPow10(%d)), new(big.Int).Mul(F, zzPow10(%d-ps)))\n", t.Scale, t.Scale)
			p.WriteString("\t\traw = zzIteBig(neg, new(big.Int).Neg(mag), mag)\n")
			fmt.Fprintf(&p, "\t\tinRange = zzAnd(raw.Cmp(%s) >= 0, raw.Cmp(%s) <= 0)\n\t}\n", mn, mx)
			return p.String()
		}
		// region of the known finding: fewer fractional digits than the scale and the integer part at
		// the type's maximum / minimum integer part (max/10^scale, |min|/10^scale from the reference)
		kfRegion := fmt.Sprintf("\tzzKnownFinding(\"C40-fractional-compared-at-parsed-scale\", zzAnd(zzAnd(ps > 0, ps < %d), zzOr(U.Cmp(new(big.Int).Quo(%s, zzPow10(%d))) == 0, U.Cmp(new(big.Int).Quo(new(big.Int).Neg(%s), zzPow10(%d))) == 0)))\n", t.Scale, mx, t.Scale, mn, t.Scale)
		fmt.Fprintf(&sb, "\n//verif:harness property=C40 mode=int\nfunc ZZ_C40_FixedPointLiteral_%s() {\n", t.Name)
		sb.WriteString(pre())
		fmt.Fprintf(&sb, "\tout := zzCatch(func() any {\n\t\treturn CheckFixedPointLiteral(nil, &ast.FixedPointExpression{Negative: neg, UnsignedInteger: new(big.Int).Set(U), Fractional: new(big.Int).Set(F), Scale: uint(ps)}, %sType, nil)\n\t})\n", t.Name)
		sb.WriteString("\tzzAssert(\"no-crash\", !out.Panicked)\n\tif out.Panicked {\n\t\treturn\n\t}\n")
		sb.WriteString(oracle())
		sb.WriteString(kfRegion)
		sb.WriteString("\tzzAssert(\"accepted-iff-scale-ok-and-in-range\", out.Value.(bool) == zzAnd(scaleOK, inRange))\n}\n")

		// conversion (fixedpoint.New<T>): value*10^scale exactly
		type res struct{}
		fmt.Fprintf(&sb, "\n//verif:harness property=C40 mode=int\nfunc ZZ_C40_FixedPointConvert_%s() {\n", t.Name)
		sb.WriteString(pre())
		sb.WriteString("\ttype zzRes struct {\n\t\tv   *big.Int\n\t\terr error\n\t}\n")
		if t.Signed {
			fmt.Fprintf(&sb, "\tout := zzCatch(func() any {\n\t\tv, err := fixedpoint.New%s(neg, new(big.Int).Set(U), new(big.Int).Set(F), uint(ps))\n\t\treturn zzRes{v, err}\n\t})\n", t.Name)
		} else {
			sb.WriteString("\tzzAssume(!neg)\n")
			fmt.Fprintf(&sb, "\tout := zzCatch(func() any {\n\t\tv, err := fixedpoint.New%s(new(big.Int).Set(U), new(big.Int).Set(F), uint(ps))\n\t\treturn zzRes{v, err}\n\t})\n", t.Name)
		}
		sb.WriteString("\tzzAssert(\"no-crash\", !out.Panicked)\n\tif out.Panicked {\n\t\treturn\n\t}\n\tr := out.Value.(zzRes)\n")
		sb.WriteString(oracle())
		sb.WriteString(kfRegion)
		sb.WriteString("\tzzAssert(\"accepted-iff-scale-ok-and-in-range\", (r.err == nil) == zzAnd(scaleOK, inRange))\n")
		sb.WriteString("\tif r.err == nil && scaleOK {\n\t\tzzAssert(\"denotes-exact-decimal-value\", r.v.Cmp(raw) == 0)\n\t}\n}\n")
		_ = res{}
	}
	return map[string]string{"literal": sb.String()}, nil
}

func init() {
	generators["C40"] = append(generators["C40"], genC40)
}
