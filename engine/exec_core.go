package main

import (
	"fmt"
	"go/types"
	"strings"
	"time"

	"golang.org/x/tools/go/ssa"
)

type Stats struct {
	Decides, Forks, FeasQueries, FeasUnknown int
	IntervalDecides                          int
	FeasTime                                 time.Duration
	Instrs                                   int
	Funcs                                    map[string]int
	Stubs                                    map[string]int
}

type Exec struct {
	Prog        *ssa.Program
	IntMode     bool
	BigW        int // width of big.Int model in bv-mode
	Unwind      int
	MaxDepth    int
	MaxSteps    int
	Feas        *Solver
	FeasTimeout time.Duration
	Stats       Stats
	Globals     map[string]interface{} // snapshot (JSON-decoded)
	globalObj   map[*ssa.Global]int    // object ids are allocated in the initial state only
	Pinned      []string               // when non-nil, nondets take these values (self-test)
	pinIdx      int
	Debug       bool
	HarnessPkg  *ssa.Package
	curSt       *State
	Base        *State
	lazyDone    map[string]bool
	inLazyInit  string
	KnownIDs    map[string]bool
	StubSets    map[string]bool
	globalInitTried map[string]bool
	globalInitFailed map[string]bool
}

type OKind int

const (
	ORet OKind = iota
	OPanic
	OAbort
)

type Outcome struct {
	St    *State
	Kind  OKind
	Vals  []Value
	Panic Value  // interface value (IfaceV) for OPanic
	Abort string // for OAbort
}

type deferRec struct {
	Fn   Value // FuncV
	Args []Value
	Call *ssa.CallCommon
}

type Frame struct {
	Fn      *ssa.Function
	St      *State
	Env     map[ssa.Value]Value
	Block   *ssa.BasicBlock
	Prev    *ssa.BasicBlock
	Idx     int
	Defers  []deferRec
	SymIter map[ssa.Instruction]int
	Depth   int
	// panic unwinding state
	Panicking  bool
	PanicVal   Value
	RunningDef bool
}

func (fr *Frame) cloneWith(st *State) *Frame {
	n := *fr
	n.St = st
	n.Env = make(map[ssa.Value]Value, len(fr.Env)+8)
	for k, v := range fr.Env {
		n.Env[k] = v
	}
	n.Defers = append([]deferRec(nil), fr.Defers...)
	n.SymIter = make(map[ssa.Instruction]int, len(fr.SymIter))
	for k, v := range fr.SymIter {
		n.SymIter[k] = v
	}
	return &n
}

// CallFn executes fn symbolically from state st and returns all outcomes.
func (ex *Exec) CallFn(st *State, fn *ssa.Function, args []Value, bound []Value, depth int) []Outcome {
	if depth > ex.MaxDepth {
		return []Outcome{{St: st, Kind: OAbort, Abort: "UNWIND: call depth exceeded at " + fn.String()}}
	}
	if ex.inLazyInit != "" && fn.Name() == "init" && fn.Pkg != nil && fn.Pkg.Pkg.Path() != ex.inLazyInit {
		return []Outcome{{St: st, Kind: ORet}}
	}
	if outs, ok := ex.tryIntrinsic(st, fn, args, depth); ok {
		return outs
	}
	if fn.Blocks == nil {
		// a body-less declaration bound by //go:linkname: the one function of the same name
		// and signature that has a body
		if target := ex.linknameTarget(fn); target != nil {
			ex.noteStub("linkname:" + fn.String() + " -> " + target.String())
			return ex.CallFn(st, target, args, bound, depth)
		}
		return []Outcome{{St: st, Kind: OAbort, Abort: "UNSUPPORTED: no body for " + fn.String()}}
	}
	if ex.Stats.Funcs == nil {
		ex.Stats.Funcs = map[string]int{}
	}
	ex.Stats.Funcs[fn.String()]++
	fr := &Frame{Fn: fn, St: st, Env: map[ssa.Value]Value{}, Block: fn.Blocks[0], SymIter: map[ssa.Instruction]int{}, Depth: depth}
	for i, p := range fn.Params {
		if i < len(args) {
			fr.Env[p] = args[i]
		}
	}
	for i, fv := range fn.FreeVars {
		if i < len(bound) {
			fr.Env[fv] = bound[i]
		}
	}
	work := []*Frame{fr}
	var outs []Outcome
	for len(work) > 0 {
		f := work[len(work)-1]
		work = work[:len(work)-1]
		ex.runFrame(f, &work, &outs)
	}
	return outs
}

// runFrame executes a frame until it returns/panics/aborts or forks.
func (ex *Exec) runFrame(fr *Frame, work *[]*Frame, outs *[]Outcome) {
	for {
		cont := ex.stepGuarded(fr, work, outs)
		if !cont {
			return
		}
	}
}

// stepGuarded executes one instruction, translating signals. Returns false when the frame is done
// (finished or replaced by forks in work).
func (ex *Exec) stepGuarded(fr *Frame, work *[]*Frame, outs *[]Outcome) (cont bool) {
	defer func() {
		if r := recover(); r != nil {
			switch sig := r.(type) {
			case forkSignal:
				for i, s := range sig.States {
					if i == len(sig.States)-1 {
						fr.St = s
						*work = append(*work, fr)
					} else {
						*work = append(*work, fr.cloneWith(s))
					}
				}
				cont = false
			case abortSignal:
				if sig.Kind == "INFEASIBLE" {
					cont = false
					return
				}
				*outs = append(*outs, Outcome{St: fr.St, Kind: OAbort, Abort: sig.Kind + ": " + sig.Msg + " in " + fr.Fn.String()})
				cont = false
			case needDecide:
				cont = ex.handleNeedDecide(fr, sig.C, work)
			case goPanic:
				cont = ex.startPanic(fr, sig.Val, work, outs)
			default:
				if debugPanics {
					ins := "?"
					if fr.Block != nil && fr.Idx < len(fr.Block.Instrs) {
						ins = fr.Block.Instrs[fr.Idx].String()
					}
					debugPrintf("  engine panic while in %s: %s\n", shortFn(fr.Fn), ins)
				}
				panic(r)
			}
		}
	}()
	return ex.step(fr, work, outs)
}

// startPanic begins unwinding the frame: runs defers; returns whether the frame continues.
func (ex *Exec) startPanic(fr *Frame, val Value, work *[]*Frame, outs *[]Outcome) bool {
	if debugPanics {
		debugPrintf("PANIC in %s: %s\n", shortFn(fr.Fn), describe(val))
	}
	if len(fr.Defers) == 0 {
		*outs = append(*outs, Outcome{St: fr.St, Kind: OPanic, Panic: val})
		return false
	}
	// Run deferred calls in LIFO order with CurPanic set. Forks inside deferred calls produce
	// several continuation frames.
	type pstate struct {
		st     *State
		defers []deferRec
		pan    *PanicInfo
	}
	saved := fr.St.CurPanic
	_ = saved
	todo := []pstate{{fr.St, fr.Defers, &PanicInfo{Val: val}}}
	for len(todo) > 0 {
		p := todo[len(todo)-1]
		todo = todo[:len(todo)-1]
		if len(p.defers) == 0 {
			if p.pan != nil && !p.pan.Recovered {
				*outs = append(*outs, Outcome{St: p.st, Kind: OPanic, Panic: p.pan.Val})
				continue
			}
			// recovered: function returns via Recover block or zero results
			p.st.CurPanic = saved
			if fr.Fn.Recover != nil {
				nf := fr.cloneWith(p.st)
				nf.Defers = nil
				nf.Prev = nf.Block
				nf.Block = fr.Fn.Recover
				nf.Idx = 0
				*work = append(*work, nf)
			} else {
				res := fr.Fn.Signature.Results()
				var vals []Value
				for i := 0; i < res.Len(); i++ {
					vals = append(vals, ex.zero(res.At(i).Type()))
				}
				*outs = append(*outs, Outcome{St: p.st, Kind: ORet, Vals: vals})
			}
			continue
		}
		d := p.defers[len(p.defers)-1]
		rest := p.defers[:len(p.defers)-1]
		p.st.CurPanic = p.pan
		douts := ex.callValue(p.st, d.Fn, d.Args, d.Call, fr.Depth+1)
		for _, o := range douts {
			switch o.Kind {
			case OAbort:
				*outs = append(*outs, o)
			case OPanic:
				// new panic replaces the old one
				o.St.CurPanic = saved
				todo = append(todo, pstate{o.St, rest, &PanicInfo{Val: o.Panic}})
			case ORet:
				pan := o.St.CurPanic
				o.St.CurPanic = saved
				todo = append(todo, pstate{o.St, rest, pan})
			}
		}
	}
	return false
}

// runDefersNormal runs defers on normal return; returns resulting states (or pushes panics).
func (ex *Exec) runDefersNormal(fr *Frame, work *[]*Frame, outs *[]Outcome) bool {
	if len(fr.Defers) == 0 {
		return true
	}
	d := fr.Defers[len(fr.Defers)-1]
	fr.Defers = fr.Defers[:len(fr.Defers)-1]
	fr.St.CurPanic = nil
	douts := ex.callValue(fr.St, d.Fn, d.Args, d.Call, fr.Depth+1)
	// continue RunDefers instruction (same Idx) in each outcome
	for _, o := range douts {
		switch o.Kind {
		case OAbort:
			*outs = append(*outs, o)
		case OPanic:
			nf := fr.cloneWith(o.St)
			ex.startPanic(nf, o.Panic, work, outs)
		case ORet:
			nf := fr.cloneWith(o.St)
			*work = append(*work, nf)
		}
	}
	return false
}

// callValue calls a function value (FuncV) or dispatches a CallCommon-less deferred closure.
func (ex *Exec) callValue(st *State, f Value, args []Value, call *ssa.CallCommon, depth int) []Outcome {
	fv, ok := f.(FuncV)
	if !ok {
		return []Outcome{{St: st, Kind: OAbort, Abort: fmt.Sprintf("UNSUPPORTED: call of non-function value %s", describe(f))}}
	}
	if fv.Intr != "" {
		return ex.callBuiltinValue(st, fv.Intr, args)
	}
	if fv.Fn == nil {
		return []Outcome{{St: st, Kind: OPanic, Panic: ex.runtimeError("nil func call")}}
	}
	return ex.CallFn(st, fv.Fn, args, fv.Bound, depth)
}

func (ex *Exec) runtimeError(msg string) Value {
	return IfaceV{T: runtimeErrorType, V: OpaqueV{Desc: "runtime error: " + msg}}
}

// runtimeErrorType is a marker type for runtime.Error panics.
var runtimeErrorType = types.NewNamed(types.NewTypeName(0, types.NewPackage("runtime", "runtime"), "Error", nil), types.NewStruct(nil, nil), nil)

func typeName(t types.Type) string {
	if t == nil {
		return "<nil>"
	}
	if t == runtimeErrorType {
		return "runtime.Error"
	}
	return types.TypeString(t, func(p *types.Package) string { return p.Name() })
}

func shortFn(fn *ssa.Function) string {
	s := fn.String()
	s = strings.ReplaceAll(s, "github.com/onflow/cadence/", "")
	return s
}

// handleNeedDecide decides a condition that blocked value merging, then retries the instruction.
func (ex *Exec) handleNeedDecide(fr *Frame, c *Term, work *[]*Frame) (cont bool) {
	defer func() {
		if r := recover(); r != nil {
			if sig, ok := r.(forkSignal); ok {
				for i, s := range sig.States {
					if i == len(sig.States)-1 {
						fr.St = s
						*work = append(*work, fr)
					} else {
						*work = append(*work, fr.cloneWith(s))
					}
				}
				cont = false
				return
			}
			panic(r)
		}
	}()
	ex.decide(fr.St, c)
	return true
}
