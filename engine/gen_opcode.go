package main

// C35 (part): every bytecode instruction decodes back to itself. The harnesses are generated
// from go/types of the current /repo/bbq/opcode, so a new instruction or operand is covered
// without editing /verif.

import (
	"fmt"
	"go/types"
	"sort"
	"strings"

	"golang.org/x/tools/go/packages"
)

func genC35Opcode(tier string) (map[string]string, error) {
	cfg := &packages.Config{Mode: packages.NeedTypes | packages.NeedName | packages.NeedImports | packages.NeedDeps | packages.NeedSyntax | packages.NeedTypesInfo, Dir: repoRoot, Env: goEnv()}
	pkgs, err := packages.Load(cfg, "./bbq/opcode")
	if err != nil || len(pkgs) != 1 || pkgs[0].Types == nil {
		return nil, fmt.Errorf("cannot load bbq/opcode: %v", err)
	}
	pkg := pkgs[0].Types
	scope := pkg.Scope()
	var insIface *types.Interface
	if o := scope.Lookup("Instruction"); o != nil {
		insIface, _ = o.Type().Underlying().(*types.Interface)
	}
	if insIface == nil {
		return nil, fmt.Errorf("opcode.Instruction interface not found")
	}
	maxArr := 2
	if tier == "thorough" {
		maxArr = 3
	}
	var sb strings.Builder
	sb.WriteString("//verif:pkg bbq/opcode\n//verif:assume instruction codec: operand fields arbitrary (uint16/bool/byte/enum values), operand arrays of length 0.." + fmt.Sprint(maxArr) + "; code longer than 65535 bytes and compilation determinism are outside the claim\npackage PKGNAME\n\n")
	sb.WriteString("import \"github.com/onflow/cadence/common\"\n\nvar _ common.PathDomain\n\n")
	sb.WriteString(`func zzU16s(n int) []uint16 {
	r := make([]uint16, n)
	for i := range r {
		r[i] = zzNondetUint16()
	}
	if n == 0 {
		return nil
	}
	return r
}

func zzUpvalues(n int) []Upvalue {
	r := make([]Upvalue, n)
	for i := range r {
		r[i] = Upvalue{TargetIndex: zzNondetUint16(), IsLocal: zzNondetBool()}
	}
	if n == 0 {
		return nil
	}
	return r
}

func zzSameU16s(a, b []uint16) bool {
	if len(a) != len(b) {
		return false
	}
	ok := true
	for i := range a {
		ok = zzAnd(ok, a[i] == b[i])
	}
	return ok
}

func zzSameUpvalues(a, b []Upvalue) bool {
	if len(a) != len(b) {
		return false
	}
	ok := true
	for i := range a {
		ok = zzAnd(ok, zzAnd(a[i].TargetIndex == b[i].TargetIndex, a[i].IsLocal == b[i].IsLocal))
	}
	return ok
}
`)
	names := scope.Names()
	sort.Strings(names)
	count := 0
	for _, n := range names {
		tn, ok := scope.Lookup(n).(*types.TypeName)
		if !ok || !strings.HasPrefix(n, "Instruction") || n == "Instruction" {
			continue
		}
		st, ok := tn.Type().Underlying().(*types.Struct)
		if !ok || !types.Implements(tn.Type(), insIface) {
			continue
		}
		var inits, eqs []string
		supported := true
		for i := 0; i < st.NumFields(); i++ {
			f := st.Field(i)
			ft := f.Type()
			tstr := types.TypeString(ft, func(p *types.Package) string {
				if p == pkg {
					return ""
				}
				return p.Name()
			})
			switch u := ft.Underlying().(type) {
			case *types.Basic:
				switch u.Kind() {
				case types.Bool:
					inits = append(inits, fmt.Sprintf("%s: zzNondetBool()", f.Name()))
				case types.Uint8:
					inits = append(inits, fmt.Sprintf("%s: %s(zzNondetUint8())", f.Name(), tstr))
				case types.Uint16, types.Uint, types.Uint32, types.Uint64, types.Int:
					inits = append(inits, fmt.Sprintf("%s: %s(zzNondetUint16())", f.Name(), tstr))
				default:
					supported = false
				}
				eqs = append(eqs, fmt.Sprintf("d.%s == ins.%s", f.Name(), f.Name()))
			case *types.Slice:
				el := types.TypeString(u.Elem(), func(p *types.Package) string { return "" })
				switch el {
				case "uint16":
					inits = append(inits, fmt.Sprintf("%s: zzU16s(zzChoice(%d))", f.Name(), maxArr+1))
					eqs = append(eqs, fmt.Sprintf("zzSameU16s(d.%s, ins.%s)", f.Name(), f.Name()))
				case "Upvalue":
					inits = append(inits, fmt.Sprintf("%s: zzUpvalues(zzChoice(%d))", f.Name(), maxArr+1))
					eqs = append(eqs, fmt.Sprintf("zzSameUpvalues(d.%s, ins.%s)", f.Name(), f.Name()))
				default:
					supported = false
				}
			case *types.Struct:
				if tstr == "Upvalue" {
					inits = append(inits, fmt.Sprintf("%s: Upvalue{TargetIndex: zzNondetUint16(), IsLocal: zzNondetBool()}", f.Name()))
					eqs = append(eqs, fmt.Sprintf("zzAnd(d.%s.TargetIndex == ins.%s.TargetIndex, d.%s.IsLocal == ins.%s.IsLocal)", f.Name(), f.Name(), f.Name(), f.Name()))
				} else {
					supported = false
				}
			default:
				supported = false
			}
		}
		short := strings.TrimPrefix(n, "Instruction")
		if !supported {
			// an operand kind the generator does not know: make the check fail loudly
			fmt.Fprintf(&sb, "\n//verif:harness property=C35 mode=bv unwind=20\nfunc ZZ_C35_Op_%s() {\n\tzzAssert(\"generator-supports-all-operand-kinds\", false)\n}\n", short)
			continue
		}
		count++
		eq := "true"
		for _, e := range eqs {
			if eq == "true" {
				eq = e
			} else {
				eq = fmt.Sprintf("zzAnd(%s, %s)", eq, e)
			}
		}
		fmt.Fprintf(&sb, "\n//verif:harness property=C35 mode=bv unwind=20\nfunc ZZ_C35_Op_%s() {\n\tins := %s{%s}\n", short, n, strings.Join(inits, ", "))
		sb.WriteString("\tout := zzCatch(func() any {\n\t\tvar code []byte\n\t\tins.Encode(&code)\n\t\tvar ip uint16\n\t\tdec := DecodeInstruction(&ip, code)\n\t\tzzAssert(\"decoder-consumes-exactly-the-encoding\", int(ip) == len(code))\n\t\treturn dec\n\t})\n")
		sb.WriteString("\tzzAssert(\"no-crash\", !out.Panicked)\n\tif out.Panicked {\n\t\treturn\n\t}\n")
		fmt.Fprintf(&sb, "\td, ok := out.Value.(%s)\n\tzzAssert(\"decodes-to-same-instruction-kind\", ok)\n\tif ok {\n\t\t_ = d\n\t\tzzAssert(\"decodes-to-same-operands\", %s)\n\t}\n}\n", n, eq)
	}
	if count == 0 {
		return nil, fmt.Errorf("no instruction types found in bbq/opcode")
	}
	// PatchJumpBytecode
	sb.WriteString(`
//verif:harness property=C35 mode=bv unwind=20
func ZZ_C35_Op_PatchJump() {
	ins := InstructionJump{Target: zzNondetUint16()}
	newTarget := zzNondetUint16()
	out := zzCatch(func() any {
		code := []byte{byte(zzNondetUint8())}
		off := len(code)
		ins.Encode(&code)
		PatchJumpBytecode(&code, off, newTarget)
		ip := uint16(off)
		return DecodeInstruction(&ip, code)
	})
	zzAssert("no-crash", !out.Panicked)
	if !out.Panicked {
		d, ok := out.Value.(InstructionJump)
		zzAssert("patched-target", ok && d.Target == newTarget)
	}
}
`)
	return map[string]string{"opcode": sb.String()}, nil
}

func init() {
	generators["C35"] = append(generators["C35"], genC35Opcode)
}
