package main

import (
	"fmt"
	"strings"
)

func genC14(tier string) (map[string]string, error) {
	var sb strings.Builder
	sb.WriteString(numericHeader)
	all := append(append([]numType(nil), intTypes...), wordTypes...)
	for _, t := range all {
		bits := t.Bits
		w := 192
		if bits == 128 {
			w = 272
		}
		if bits == 0 {
			w = 288
		}
		if bits == 256 {
			w = 528
		}
		opbits := bits
		if bits == 0 {
			opbits = 129
		}
		attrs := fmt.Sprintf("property=C14 mode=bv bigw=%d stubs=metering unwind=700", w)
		if bits == 256 {
			attrs += " timeout=300"
		}
		operand := func(x, X string) string {
			s := t.operand(x, X)
			if bits == 0 {
				s += fmt.Sprintf("\tzzAssume(%s.CmpAbs(new(big.Int).Lsh(big.NewInt(1), 128)) < 0)\n", X)
			}
			return s
		}
		rangeOK := func(r string) string {
			c := "true"
			if mn := t.specMin(); mn != "" {
				c = fmt.Sprintf("%s.Cmp(%s) >= 0", r, mn)
			}
			if mx := t.specMax(); mx != "" {
				c = fmt.Sprintf("zzAnd(%s, %s.Cmp(%s) <= 0)", c, r, mx)
			}
			return c
		}
		for i, m := range []string{"BitwiseAnd", "BitwiseOr", "BitwiseXor"} {
			fmt.Fprintf(&sb, "\n//verif:harness %s\nfunc ZZ_C14_%s_%s() {\n", attrs, t.Name, m)
			sb.WriteString(operand("x", "A"))
			sb.WriteString(operand("y", "B"))
			fmt.Fprintf(&sb, "\tout := zzCatch(func() any { return x.%s(nil, y) })\n", m)
			sb.WriteString("\tzzAssert(\"never-fails\", !out.Panicked)\n\tif out.Panicked {\n\t\treturn\n\t}\n")
			fmt.Fprintf(&sb, "\tR := %s\n", t.resultBig("out.Value"))
			fmt.Fprintf(&sb, "\tzzAssert(\"result-in-range\", %s)\n", rangeOK("R"))
			fmt.Fprintf(&sb, "\tzzAssert(\"bitwise\", zzBitwiseOK(A, B, R, %d, %d))\n", opbits, i)
			sb.WriteString("}\n")
		}
		for _, m := range []string{"BitwiseLeftShift", "BitwiseRightShift"} {
			left := m == "BitwiseLeftShift"
			fmt.Fprintf(&sb, "\n//verif:harness %s\nfunc ZZ_C14_%s_%s() {\n", attrs, t.Name, m)
			sb.WriteString(operand("x", "A"))
			sb.WriteString(t.operand("y", "B"))
			if bits == 0 {
				// bound (placed before the call: assumptions are not retroactive)
				sb.WriteString("\tzzAssume(zzOr(B.Cmp(big.NewInt(128)) < 0, !B.IsUint64()))\n")
			}
			fmt.Fprintf(&sb, "\tout := zzCatch(func() any { return x.%s(nil, y) })\n", m)
			if t.Signed {
				sb.WriteString("\tif B.Sign() < 0 {\n\t\tzzAssert(\"negative-shift-fails\", out.PanicIs(\"*interpreter.NegativeShiftError\") || out.PanicIs(\"values.NegativeShiftError\"))\n\t\treturn\n\t}\n")
			}
			if bits == 0 {
				// unbounded: overflow error allowed when the amount does not fit in 64 bits
				sb.WriteString("\tif !B.IsUint64() {\n\t\tzzAssert(\"huge-shift-fails-with-overflow\", out.PanicIs(\"*interpreter.OverflowError\") || out.PanicIs(\"values.OverflowError\"))\n\t\treturn\n\t}\n")
			} else {
				fmt.Fprintf(&sb, "\tif B.Cmp(big.NewInt(%d)) >= 0 {\n", bits)
				sb.WriteString("\t\tzzAssert(\"never-fails\", !out.Panicked)\n\t\tif out.Panicked {\n\t\t\treturn\n\t\t}\n")
				fmt.Fprintf(&sb, "\t\tR := %s\n", t.resultBig("out.Value"))
				if left || !t.Signed {
					sb.WriteString("\t\tzzAssert(\"shift-beyond-width\", R.Sign() == 0)\n")
				} else {
					if t.Bits >= 128 {
						sb.WriteString("\t\tzzKnownFinding(\"C14-rsh-beyond-uint64-negative\", zzAnd(A.Sign() < 0, !B.IsUint64()))\n")
					}
					sb.WriteString("\t\tzzAssert(\"shift-beyond-width\", R.Cmp(zzIteBig(A.Sign() < 0, big.NewInt(-1), big.NewInt(0))) == 0)\n")
				}
				sb.WriteString("\t\treturn\n\t}\n")
			}
			sb.WriteString("\tzzAssert(\"never-fails\", !out.Panicked)\n\tif out.Panicked {\n\t\treturn\n\t}\n")
			fmt.Fprintf(&sb, "\tR := %s\n\ts := uint(B.Uint64())\n", t.resultBig("out.Value"))
			fmt.Fprintf(&sb, "\tzzAssert(\"result-in-range\", %s)\n", rangeOK("R"))
			if left {
				if bits == 0 {
					sb.WriteString("\tzzAssert(\"left-shift\", R.Cmp(new(big.Int).Lsh(A, s)) == 0)\n")
				} else {
					fmt.Fprintf(&sb, "\tzzAssert(\"left-shift\", R.Cmp(zzTwos(new(big.Int).Lsh(A, s), %d, %v)) == 0)\n", bits, t.Signed)
				}
			} else {
				sb.WriteString("\tzzAssert(\"right-shift\", zzIsFloorShift(A, R, s))\n")
			}
			sb.WriteString("}\n")
		}
	}
	return map[string]string{"bitwise": sb.String()}, nil
}

func init() {
	generators["C14"] = append(generators["C14"], genC14)
}
