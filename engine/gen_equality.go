package main

import (
	"fmt"
	"strings"
)

func genC18(tier string) (map[string]string, error) {
	var sb strings.Builder
	sb.WriteString(numericHeader)
	sb.WriteString(fix128Helpers)
	sb.WriteString("//verif:assume kernel: numbers (24 types), Bool, Address, Path (identifier <= 3 bytes), String values with directly given (already normalised) content <= 3 bytes; operands of equal type; string normalisation/characters (NFC), type values, enums, optionals/containers and the atree dictionary itself are outside\n")
	sb.WriteString("//verif:assume Equal is compared with mathematical equality and the comparisons with the mathematical order, from which reflexivity, symmetry, transitivity, totality and consistency follow; hash input: equal values give identical bytes and different values different bytes (within a type)\n")
	sb.WriteString(`
func zzSameBytes(a, b []byte) bool {
	if len(a) != len(b) {
		return false
	}
	ok := true
	for i := range a {
		ok = zzAnd(ok, a[i] == b[i])
	}
	return ok
}
`)
	bigHash := map[string]bool{"Int": true, "Int128": true, "Int256": true, "UInt": true, "UInt128": true, "UInt256": true, "Word128": true, "Word256": true}
	for _, c := range convTypes() {
		// comparisons
		fmt.Fprintf(&sb, "\n//verif:harness property=C18 mode=int stubs=metering\nfunc ZZ_C18_%s_Compare() {\n", c.Name)
		sb.WriteString(c.operand("x", "A"))
		sb.WriteString(c.operand("y", "B"))
		sb.WriteString("\tout := zzCatch(func() any {\n")
		sb.WriteString("\t\tzzAssert(\"equal-is-mathematical-equality\", bool(x.Equal(nil, y)) == (A.Cmp(B) == 0))\n")
		sb.WriteString("\t\tzzAssert(\"less\", bool(x.Less(nil, y)) == (A.Cmp(B) < 0))\n")
		sb.WriteString("\t\tzzAssert(\"less-equal\", bool(x.LessEqual(nil, y)) == (A.Cmp(B) <= 0))\n")
		sb.WriteString("\t\tzzAssert(\"greater\", bool(x.Greater(nil, y)) == (A.Cmp(B) > 0))\n")
		sb.WriteString("\t\tzzAssert(\"greater-equal\", bool(x.GreaterEqual(nil, y)) == (A.Cmp(B) >= 0))\n")
		sb.WriteString("\t\treturn nil\n\t})\n\tzzAssert(\"no-crash\", !out.Panicked)\n}\n")
		// hash input
		if bigHash[c.Name] {
			w := 192
			if c.Int.Bits == 256 {
				w = 320
			}
			fmt.Fprintf(&sb, "\n//verif:harness property=C18 mode=bv bigw=%d stubs=metering unwind=80\nfunc ZZ_C18_%s_HashInput() {\n", w, c.Name)
			sb.WriteString(c.operand("x", "A"))
			if c.Int.Bits == 0 {
				sb.WriteString("\tzzAssume(A.CmpAbs(new(big.Int).Lsh(big.NewInt(1), 128)) < 0)\n")
			}
			sb.WriteString("\tscratch := make([]byte, 32*zzChoice(2))\n")
			sb.WriteString("\tout := zzCatch(func() any { return x.HashInput(nil, scratch) })\n")
			sb.WriteString("\tzzAssert(\"no-crash\", !out.Panicked)\n\tif out.Panicked {\n\t\treturn\n\t}\n\th := out.Value.([]byte)\n")
			sb.WriteString("\tzzAssert(\"has-type-tag\", len(h) >= 1)\n\tif len(h) < 1 {\n\t\treturn\n\t}\n")
			fmt.Fprintf(&sb, "\tzzAssert(\"type-tag\", h[0] == byte(HashInputType%s))\n", c.Name)
			// decoding the payload gives the value back: the hash input is injective
			if c.Int.Signed {
				sb.WriteString("\tzzAssert(\"payload-determines-value\", values.BigEndianBytesToSignedBigInt(append([]byte{}, h[1:]...)).Cmp(A) == 0)\n")
			} else {
				sb.WriteString("\tzzAssert(\"payload-determines-value\", new(big.Int).SetBytes(h[1:]).Cmp(A) == 0)\n")
			}
			// canonical: minimal length, so equal values cannot have two encodings
			sb.WriteString("\tzzAssert(\"payload-canonical\", len(h) == 1+len(")
			if c.Int.Signed {
				sb.WriteString("values.SignedBigIntToBigEndianBytes(A)))\n}\n")
			} else {
				sb.WriteString("values.UnsignedBigIntToBigEndianBytes(A)))\n}\n")
			}
			continue
		}
		fmt.Fprintf(&sb, "\n//verif:harness property=C18 mode=bv stubs=metering unwind=80\nfunc ZZ_C18_%s_HashInput() {\n", c.Name)
		sb.WriteString(c.operand("x", "A"))
		sb.WriteString(c.operand("y", "B"))
		sb.WriteString("\tout := zzCatch(func() any {\n\t\tha := x.HashInput(nil, make([]byte, 32))\n\t\thb := y.HashInput(nil, make([]byte, 32))\n")
		sb.WriteString("\t\tzzAssert(\"same-hash-input-iff-equal\", zzSameBytes(ha, hb) == (A.Cmp(B) == 0))\n")
		fmt.Fprintf(&sb, "\t\tzzAssert(\"type-tag\", zzAnd(len(ha) >= 1, ha[0] == byte(HashInputType%s)))\n", c.Name)
		sb.WriteString("\t\treturn nil\n\t})\n\tzzAssert(\"no-crash\", !out.Panicked)\n}\n")
	}
	return map[string]string{"equality": sb.String()}, nil
}

func init() {
	generators["C18"] = append(generators["C18"], genC18)
}
