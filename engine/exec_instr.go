package main

import (
	"fmt"
	"go/constant"
	"go/token"
	"go/types"
	"math/big"

	"golang.org/x/tools/go/ssa"
)

func (ex *Exec) get(fr *Frame, v ssa.Value) Value {
	switch x := v.(type) {
	case *ssa.Const:
		return ex.constValue(x)
	case *ssa.Global:
		return PtrV{Obj: ex.globalObject(fr.St, x)}
	case *ssa.Function:
		return FuncV{Fn: x}
	case *ssa.Builtin:
		return FuncV{Intr: "builtin:" + x.Name()}
	}
	val, ok := fr.Env[v]
	if !ok {
		unsupported("internal: value %s (%T) not in env of %s", v.Name(), v, fr.Fn)
	}
	return val
}

func (ex *Exec) constValue(c *ssa.Const) Value {
	t := c.Type()
	if c.Value == nil {
		return ex.zero(t)
	}
	if k, ok := basicIntKind(t); ok {
		var v *big.Int
		if c.Value.Kind() == constant.Int {
			v, _ = new(big.Int).SetString(c.Value.ExactString(), 10)
		} else {
			// float constant converted to int type
			f := constant.ToInt(c.Value)
			v, _ = new(big.Int).SetString(f.ExactString(), 10)
		}
		if ex.IntMode {
			// normalise to kind range
			m := normBV(v, k.W)
			if k.Signed {
				m = toSigned(m, k.W)
			}
			return IntC(m)
		}
		return BVC(v, k.W)
	}
	switch b := t.Underlying().(type) {
	case *types.Basic:
		switch {
		case b.Info()&types.IsBoolean != 0:
			return BoolC(constant.BoolVal(c.Value))
		case b.Info()&types.IsString != 0:
			return StrV{S: constant.StringVal(c.Value)}
		case b.Info()&types.IsFloat != 0:
			return FloatV{Desc: c.Value.ExactString()}
		}
	}
	unsupported("constant %s of type %s", c, t)
	return nil
}

func (ex *Exec) globalObject(st *State, g *ssa.Global) int {
	if id, ok := ex.globalObj[g]; ok {
		if _, present := st.Heap[id]; !present {
			st.Heap[id] = ex.globalInit(st, g)
		}
		return id
	}
	// allocate a stable id outside the range used by states (negative ids)
	id := -(len(ex.globalObj) + 1)
	ex.globalObj[g] = id
	st.Heap[id] = ex.globalInit(st, g)
	return id
}

func (ex *Exec) step(fr *Frame, work *[]*Frame, outs *[]Outcome) bool {
	st := fr.St
	ex.curSt = st
	st.Steps++
	ex.Stats.Instrs++
	if st.Steps > ex.MaxSteps {
		panic(abortSignal{Kind: "UNWIND", Msg: "step limit exceeded"})
	}
	instr := fr.Block.Instrs[fr.Idx]
	if ex.Debug {
		fmt.Printf("    [%s b%d.%d] %T %v\n", fr.Fn.Name(), fr.Block.Index, fr.Idx, instr, instr)
	}
	switch in := instr.(type) {
	case *ssa.DebugRef:
	case *ssa.Alloc:
		t := in.Type().Underlying().(*types.Pointer).Elem()
		obj := st.NewObj(ex.zero(t))
		fr.Env[in] = PtrV{Obj: obj}
	case *ssa.Phi:
		// evaluate all phis of the block simultaneously
		var vals []Value
		var phis []*ssa.Phi
		i := fr.Idx
		for ; i < len(fr.Block.Instrs); i++ {
			p, ok := fr.Block.Instrs[i].(*ssa.Phi)
			if !ok {
				break
			}
			idx := -1
			for j, pred := range fr.Block.Preds {
				if pred == fr.Prev {
					idx = j
					break
				}
			}
			if idx < 0 {
				unsupported("phi without matching predecessor")
			}
			vals = append(vals, ex.get(fr, p.Edges[idx]))
			phis = append(phis, p)
		}
		for j, p := range phis {
			fr.Env[p] = vals[j]
		}
		fr.Idx = i
		return true
	case *ssa.BinOp:
		fr.Env[in] = ex.binop(fr, in.Op, in.X.Type(), in.Y.Type(), ex.get(fr, in.X), ex.get(fr, in.Y))
	case *ssa.UnOp:
		fr.Env[in] = ex.unop(fr, in)
	case *ssa.ChangeType:
		fr.Env[in] = ex.get(fr, in.X)
	case *ssa.Convert:
		fr.Env[in] = ex.convert(fr, ex.get(fr, in.X), in.X.Type(), in.Type())
	case *ssa.MultiConvert:
		fr.Env[in] = ex.convert(fr, ex.get(fr, in.X), in.X.Type(), in.Type())
	case *ssa.ChangeInterface:
		fr.Env[in] = ex.get(fr, in.X)
	case *ssa.MakeInterface:
		fr.Env[in] = IfaceV{T: in.X.Type(), V: ex.get(fr, in.X)}
	case *ssa.MakeClosure:
		fn := in.Fn.(*ssa.Function)
		b := make([]Value, len(in.Bindings))
		for i, x := range in.Bindings {
			b[i] = ex.get(fr, x)
		}
		fr.Env[in] = FuncV{Fn: fn, Bound: b}
	case *ssa.MakeSlice:
		n := int(ex.concretize(st, ex.get(fr, in.Len).(*Term), 64))
		c := int(ex.concretize(st, ex.get(fr, in.Cap).(*Term), 64))
		if n < 0 || c < n {
			panic(goPanic{Val: ex.runtimeError("makeslice: len out of range")})
		}
		if c > 1<<16 {
			unsupported("make slice too large %d", c)
		}
		elem := in.Type().Underlying().(*types.Slice).Elem()
		fr.Env[in] = ex.newSlice(st, make([]Value, 0), c, ex.zero(elem))
		s := fr.Env[in].(SliceV)
		s.Len = n
		fr.Env[in] = s
	case *ssa.MakeMap:
		fr.Env[in] = MapV{Obj: st.NewObj(&MapObj{})}
	case *ssa.MakeChan:
		unsupported("channels")
	case *ssa.FieldAddr:
		p := ex.get(fr, in.X).(PtrV)
		if p.Obj == 0 {
			panic(goPanic{Val: ex.runtimeError("nil pointer dereference")})
		}
		fr.Env[in] = PtrV{Obj: p.Obj, Path: extendPath(p.Path, PathElem{I: in.Field})}
	case *ssa.Field:
		s := ex.get(fr, in.X)
		sv, ok := s.(StructV)
		if !ok {
			unsupported("Field of %s", describe(s))
		}
		fr.Env[in] = sv.F[in.Field]
	case *ssa.IndexAddr:
		fr.Env[in] = ex.indexAddr(fr, in)
	case *ssa.Index:
		fr.Env[in] = ex.index(fr, in)
	case *ssa.Lookup:
		fr.Env[in] = ex.lookup(fr, in)
	case *ssa.MapUpdate:
		ex.mapUpdate(fr, in)
	case *ssa.Slice:
		fr.Env[in] = ex.sliceOp(fr, in)
	case *ssa.SliceToArrayPointer:
		s := ex.get(fr, in.X).(SliceV)
		n := int(in.Type().Underlying().(*types.Pointer).Elem().Underlying().(*types.Array).Len())
		if s.Len < n {
			panic(goPanic{Val: ex.runtimeError("slice to array pointer: length")})
		}
		if s.Obj == 0 {
			fr.Env[in] = PtrV{}
		} else {
			if s.Off != 0 {
				unsupported("SliceToArrayPointer with offset")
			}
			fr.Env[in] = PtrV{Obj: s.Obj, Path: s.Path}
		}
	case *ssa.Extract:
		fr.Env[in] = ex.get(fr, in.Tuple).(TupleV)[in.Index]
	case *ssa.TypeAssert:
		fr.Env[in] = ex.typeAssert(fr, in)
	case *ssa.Store:
		ex.store(st, ex.get(fr, in.Addr).(PtrV), ex.get(fr, in.Val))
	case *ssa.Range:
		fr.Env[in] = ex.rangeInit(fr, in)
	case *ssa.Next:
		fr.Env[in] = ex.rangeNext(fr, in)
	case *ssa.Defer:
		d := ex.prepareCall(fr, &in.Call)
		fr.Defers = append(fr.Defers, d)
	case *ssa.RunDefers:
		if len(fr.Defers) > 0 {
			return ex.runDefersNormal(fr, work, outs)
		}
	case *ssa.Go, *ssa.Send, *ssa.Select:
		unsupported("concurrency instruction %T", in)
	case *ssa.Jump:
		fr.Prev = fr.Block
		fr.Block = fr.Block.Succs[0]
		fr.Idx = 0
		return true
	case *ssa.If:
		c := ex.get(fr, in.Cond).(*Term)
		if !c.IsConst() {
			fr.SymIter[in]++
			if fr.SymIter[in] > ex.Unwind {
				panic(abortSignal{Kind: "UNWIND", Msg: fmt.Sprintf("symbolic branch visited more than %d times", ex.Unwind)})
			}
		}
		var b bool
		func() {
			defer func() {
				if r := recover(); r != nil {
					if !c.IsConst() {
						fr.SymIter[in]-- // the instruction is retried
					}
					panic(r)
				}
			}()
			b = ex.decide(st, c)
		}()
		fr.Prev = fr.Block
		if b {
			fr.Block = fr.Block.Succs[0]
		} else {
			fr.Block = fr.Block.Succs[1]
		}
		fr.Idx = 0
		return true
	case *ssa.Return:
		vals := make([]Value, len(in.Results))
		for i, r := range in.Results {
			vals[i] = ex.get(fr, r)
		}
		*outs = append(*outs, Outcome{St: st, Kind: ORet, Vals: vals})
		return false
	case *ssa.Panic:
		panic(goPanic{Val: ex.get(fr, in.X)})
	case *ssa.Call:
		return ex.callInstr(fr, in, work, outs)
	default:
		unsupported("instruction %T: %v", instr, instr)
	}
	fr.Idx++
	return true
}

// prepareCall resolves callee and arguments of a CallCommon into a deferRec.
func (ex *Exec) prepareCall(fr *Frame, c *ssa.CallCommon) deferRec {
	var args []Value
	if c.IsInvoke() {
		recv := ex.get(fr, c.Value)
		iv, ok := recv.(IfaceV)
		if !ok {
			unsupported("invoke on %s", describe(recv))
		}
		if iv.T == nil {
			panic(goPanic{Val: ex.runtimeError("nil interface method call " + c.Method.Name())})
		}
		fn := ex.Prog.LookupMethod(iv.T, c.Method.Pkg(), c.Method.Name())
		if fn == nil {
			unsupported("method %s not found on %s", c.Method.Name(), iv.T)
		}
		args = append(args, iv.V)
		for _, a := range c.Args {
			args = append(args, ex.get(fr, a))
		}
		return deferRec{Fn: FuncV{Fn: fn}, Args: args, Call: c}
	}
	for _, a := range c.Args {
		args = append(args, ex.get(fr, a))
	}
	return deferRec{Fn: ex.get(fr, c.Value), Args: args, Call: c}
}

func (ex *Exec) callInstr(fr *Frame, in *ssa.Call, work *[]*Frame, outs *[]Outcome) bool {
	d := ex.prepareCall(fr, &in.Call)
	fv := d.Fn.(FuncV)
	var couts []Outcome
	if fv.Intr != "" {
		couts = ex.callBuiltin(fr, fv.Intr, d.Args, in)
	} else {
		couts = ex.callValue(fr.St, d.Fn, d.Args, d.Call, fr.Depth+1)
	}
	nres := in.Call.Signature().Results().Len()
	for i, o := range couts {
		switch o.Kind {
		case OAbort:
			*outs = append(*outs, o)
		case OPanic:
			nf := fr
			if i < len(couts)-1 {
				nf = fr.cloneWith(o.St)
			} else {
				nf.St = o.St
			}
			ex.curSt = nf.St
			ex.startPanic(nf, o.Panic, work, outs)
		case ORet:
			nf := fr
			if i < len(couts)-1 {
				nf = fr.cloneWith(o.St)
			} else {
				nf.St = o.St
			}
			switch {
			case nres == 0:
			case nres == 1 && len(o.Vals) == 1:
				nf.Env[in] = o.Vals[0]
			default:
				nf.Env[in] = TupleV(o.Vals)
			}
			nf.Idx++
			*work = append(*work, nf)
		}
	}
	return false
}

func (ex *Exec) unop(fr *Frame, in *ssa.UnOp) Value {
	x := ex.get(fr, in.X)
	switch in.Op {
	case token.MUL:
		return ex.load(fr.St, x.(PtrV))
	case token.NOT:
		return Not(x.(*Term))
	case token.SUB:
		if k, ok := basicIntKind(in.X.Type()); ok {
			return ex.neg(x.(*Term), k)
		}
	case token.XOR:
		if k, ok := basicIntKind(in.X.Type()); ok {
			return ex.bitnot(x.(*Term), k)
		}
	}
	unsupported("unop %v on %s", in.Op, in.X.Type())
	return nil
}

func (ex *Exec) binop(fr *Frame, op token.Token, xt, yt types.Type, x, y Value) Value {
	if k, ok := basicIntKind(xt); ok {
		a, okA := x.(*Term)
		b, okB := y.(*Term)
		if !okA || !okB {
			unsupported("int binop on %s, %s", describe(x), describe(y))
		}
		switch op {
		case token.SHL, token.SHR:
			sk, _ := basicIntKind(yt)
			if sk.Signed {
				if ex.decide(fr.St, ex.ltZero(b, sk)) {
					panic(goPanic{Val: ex.runtimeError("negative shift amount")})
				}
			}
			return ex.shift(op, a, b, k, sk)
		case token.QUO, token.REM:
			if ex.decide(fr.St, Eq(b, ex.intZero(k))) {
				panic(goPanic{Val: ex.runtimeError("integer divide by zero")})
			}
			return ex.arith(op, a, b, k)
		case token.EQL, token.NEQ, token.LSS, token.LEQ, token.GTR, token.GEQ:
			return ex.cmp(op, a, b, k)
		}
		return ex.arith(op, a, b, k)
	}
	switch u := xt.Underlying().(type) {
	case *types.Basic:
		if u.Info()&types.IsBoolean != 0 {
			return boolOp(op, x.(*Term), y.(*Term))
		}
		if u.Info()&types.IsString != 0 {
			return ex.stringBinop(fr, op, x.(StrV), y.(StrV))
		}
		if u.Info()&types.IsFloat != 0 {
			return ex.floatBinop(fr, op, x, y)
		}
	}
	switch op {
	case token.EQL, token.NEQ:
		e := ex.valueEq(x, y)
		if e == nil {
			unsupported("equality of %s and %s", describe(x), describe(y))
		}
		if op == token.NEQ {
			return Not(e)
		}
		return e
	}
	unsupported("binop %v on %s", op, xt)
	return nil
}

func (ex *Exec) floatBinop(fr *Frame, op token.Token, x, y Value) Value {
	unsupported("floating point operation %v", op)
	return nil
}

func (ex *Exec) stringBinop(fr *Frame, op token.Token, x, y StrV) Value {
	switch op {
	case token.ADD:
		if x.B == nil && y.B == nil {
			return StrV{S: x.S + y.S}
		}
		return ex.mkStr(append(append([]*Term(nil), ex.strBytes(x)...), ex.strBytes(y)...))
	case token.EQL:
		return ex.valueEq(x, y)
	case token.NEQ:
		return Not(ex.valueEq(x, y))
	case token.LSS, token.LEQ, token.GTR, token.GEQ:
		lt := ex.bytesLess(ex.strBytes(x), ex.strBytes(y))
		eq := ex.valueEq(x, y)
		switch op {
		case token.LSS:
			return lt
		case token.LEQ:
			return Or(lt, eq)
		case token.GTR:
			return And(Not(lt), Not(eq))
		default:
			return Not(lt)
		}
	}
	unsupported("string op %v", op)
	return nil
}

// bytesLess: lexicographic a < b over unsigned bytes.
func (ex *Exec) bytesLess(a, b []*Term) *Term {
	k8 := IntKind{8, false}
	n := len(a)
	if len(b) < n {
		n = len(b)
	}
	// from the end backwards
	res := BoolC(len(a) < len(b))
	for i := n - 1; i >= 0; i-- {
		res = Ite(Eq(a[i], b[i]), res, ex.cmp(token.LSS, a[i], b[i], k8))
	}
	return res
}

func (ex *Exec) convert(fr *Frame, x Value, from, to types.Type) Value {
	fk, fok := basicIntKind(from)
	tk, tok := basicIntKind(to)
	if fok && tok {
		return ex.convertInt(x.(*Term), fk, tk)
	}
	fu, tu := from.Underlying(), to.Underlying()
	// string <-> []byte
	if fb, ok := fu.(*types.Basic); ok && fb.Info()&types.IsString != 0 {
		if ts, ok := tu.(*types.Slice); ok {
			if eb, ok := ts.Elem().Underlying().(*types.Basic); ok && eb.Kind() == types.Uint8 {
				s := x.(StrV)
				bs := ex.strBytes(s)
				vals := make([]Value, len(bs))
				for i, b := range bs {
					vals[i] = b
				}
				return ex.newSlice(fr.St, vals, len(vals), ex.byteTerm(0))
			}
			if eb, ok := ts.Elem().Underlying().(*types.Basic); ok && eb.Kind() == types.Int32 {
				s, ok := x.(StrV).Concrete()
				if !ok {
					unsupported("[]rune of symbolic string")
				}
				var vals []Value
				for _, r := range s {
					vals = append(vals, ex.intConst(big.NewInt(int64(r)), IntKind{32, true}))
				}
				return ex.newSlice(fr.St, vals, len(vals), ex.intZero(IntKind{32, true}))
			}
		}
		if tb, ok := tu.(*types.Basic); ok && tb.Info()&types.IsString != 0 {
			return x
		}
	}
	if fs, ok := fu.(*types.Slice); ok {
		if tb, ok := tu.(*types.Basic); ok && tb.Info()&types.IsString != 0 {
			if eb, ok := fs.Elem().Underlying().(*types.Basic); ok && eb.Kind() == types.Uint8 {
				s := x.(SliceV)
				el := ex.sliceElems(fr.St, s)
				bs := make([]*Term, len(el))
				for i, e := range el {
					bs[i] = e.(*Term)
				}
				return ex.mkStr(bs)
			}
			if eb, ok := fs.Elem().Underlying().(*types.Basic); ok && eb.Kind() == types.Int32 {
				s := x.(SliceV)
				el := ex.sliceElems(fr.St, s)
				var rs []rune
				for _, e := range el {
					t := e.(*Term)
					if !t.IsConst() {
						unsupported("string of symbolic runes")
					}
					rs = append(rs, rune(ex.constInt(t)))
				}
				return StrV{S: string(rs)}
			}
		}
	}
	if fok {
		if tb, ok := tu.(*types.Basic); ok && tb.Info()&types.IsString != 0 {
			t := x.(*Term)
			if !t.IsConst() {
				unsupported("string(rune) of symbolic value")
			}
			return StrV{S: string(rune(ex.constInt(t)))}
		}
		if tb, ok := tu.(*types.Basic); ok && tb.Info()&types.IsFloat != 0 {
			return FloatV{Desc: "conv(" + x.(*Term).String() + ")"}
		}
	}
	if _, ok := tu.(*types.Pointer); ok {
		return x
	}
	if tb, ok := tu.(*types.Basic); ok && tb.Kind() == types.UnsafePointer {
		return x
	}
	if tb, ok := tu.(*types.Basic); ok && tb.Info()&types.IsFloat != 0 {
		return x
	}
	unsupported("conversion %s -> %s", from, to)
	return nil
}

func (ex *Exec) typeAssert(fr *Frame, in *ssa.TypeAssert) Value {
	x := ex.get(fr, in.X)
	iv, ok := x.(IfaceV)
	if !ok {
		unsupported("type assert on %s", describe(x))
	}
	okv := false
	var res Value
	if iv.T != nil {
		if types.IsInterface(in.AssertedType) {
			if it, ok2 := in.AssertedType.Underlying().(*types.Interface); ok2 {
				if iv.T == runtimeErrorType {
					okv = it.NumMethods() == 0 || (it.NumMethods() == 1 && it.Method(0).Name() == "Error")
				} else {
					okv = types.Implements(iv.T, it)
				}
			}
			res = iv
		} else {
			okv = types.Identical(iv.T, in.AssertedType)
			res = iv.V
		}
	}
	if in.CommaOk {
		if !okv {
			res = ex.zero(in.AssertedType)
		}
		return TupleV{res, BoolC(okv)}
	}
	if !okv {
		panic(goPanic{Val: ex.runtimeError(fmt.Sprintf("interface conversion: %s is not %s", typeName(iv.T), in.AssertedType))})
	}
	return res
}

func (ex *Exec) boundsCheck(fr *Frame, idx *Term, n int, what string) {
	zero := ex.intZero(intK)
	inb := And(ex.cmp(token.GEQ, idx, zero, intK), ex.cmp(token.LSS, idx, ex.intConst(big.NewInt(int64(n)), intK), intK))
	if !ex.decide(fr.St, inb) {
		panic(goPanic{Val: ex.runtimeError(what + " out of range")})
	}
}

// toIntIdx converts an index term of arbitrary int kind to "int" kind (64-bit signed), keeping
// out-of-range unsigned values out of range.
func (ex *Exec) toIntIdx(t *Term, ty types.Type) *Term {
	k, _ := basicIntKind(ty)
	if ex.IntMode {
		return t
	}
	if k.W == 64 {
		if !k.Signed {
			// uint64 index >= 2^63 must stay out of range: handled because as signed it is negative
		}
		return t
	}
	return ex.convertInt(t, k, intK)
}

func (ex *Exec) indexAddr(fr *Frame, in *ssa.IndexAddr) Value {
	base := ex.get(fr, in.X)
	idx := ex.toIntIdx(ex.get(fr, in.Index).(*Term), in.Index.Type())
	switch b := base.(type) {
	case SliceV:
		ex.boundsCheck(fr, idx, b.Len, "index")
		if idx.IsConst() {
			return ex.sliceElemPtr(b, int(ex.constInt(idx)))
		}
		off := ex.arith(token.ADD, idx, ex.intConst(big.NewInt(int64(b.Off)), intK), intK)
		arr := ex.loadPath(fr.St.Heap[b.Obj], b.Path).(ArrayV)
		return PtrV{Obj: b.Obj, Path: extendPath(b.Path, PathElem{Sym: off, N: len(arr.E)})}
	case PtrV:
		if b.Obj == 0 {
			panic(goPanic{Val: ex.runtimeError("nil pointer dereference")})
		}
		arr, ok := ex.load(fr.St, b).(ArrayV)
		if !ok {
			unsupported("IndexAddr on pointer to non-array")
		}
		ex.boundsCheck(fr, idx, len(arr.E), "index")
		if idx.IsConst() {
			return PtrV{Obj: b.Obj, Path: extendPath(b.Path, PathElem{I: int(ex.constInt(idx))})}
		}
		return PtrV{Obj: b.Obj, Path: extendPath(b.Path, PathElem{Sym: idx, N: len(arr.E)})}
	}
	unsupported("IndexAddr on %s", describe(base))
	return nil
}

func (ex *Exec) index(fr *Frame, in *ssa.Index) Value {
	base := ex.get(fr, in.X)
	idx := ex.toIntIdx(ex.get(fr, in.Index).(*Term), in.Index.Type())
	switch b := base.(type) {
	case ArrayV:
		ex.boundsCheck(fr, idx, len(b.E), "index")
		return ex.loadPath(b, []PathElem{ex.pathElemFor(idx, len(b.E))})
	case StrV:
		bs := ex.strBytes(b)
		ex.boundsCheck(fr, idx, len(bs), "index")
		vals := make([]Value, len(bs))
		for i, t := range bs {
			vals[i] = t
		}
		return ex.loadPath(ArrayV{E: vals}, []PathElem{ex.pathElemFor(idx, len(bs))})
	}
	unsupported("Index on %s", describe(base))
	return nil
}

func (ex *Exec) pathElemFor(idx *Term, n int) PathElem {
	if idx.IsConst() {
		return PathElem{I: int(ex.constInt(idx))}
	}
	return PathElem{Sym: idx, N: n}
}

func (ex *Exec) sliceOp(fr *Frame, in *ssa.Slice) Value {
	st := fr.St
	x := ex.get(fr, in.X)
	var base SliceV
	var str *StrV
	switch b := x.(type) {
	case SliceV:
		base = b
	case PtrV: // pointer to array
		if b.Obj == 0 {
			panic(goPanic{Val: ex.runtimeError("nil pointer dereference")})
		}
		arr, ok := ex.load(st, b).(ArrayV)
		if !ok {
			unsupported("slice of pointer to non-array")
		}
		base = SliceV{Obj: b.Obj, Path: b.Path, Off: 0, Len: len(arr.E), Cap: len(arr.E)}
	case StrV:
		str = &b
		base = SliceV{Len: b.Len(), Cap: b.Len()}
	default:
		unsupported("slice of %s", describe(x))
	}
	getIdx := func(v ssa.Value, def int) *Term {
		if v == nil {
			return ex.intConst(big.NewInt(int64(def)), intK)
		}
		return ex.toIntIdx(ex.get(fr, v).(*Term), v.Type())
	}
	lo := getIdx(in.Low, 0)
	hiDef := base.Len
	hi := getIdx(in.High, hiDef)
	capLimit := base.Cap
	if str != nil {
		capLimit = base.Len
	}
	mx := getIdx(in.Max, capLimit)
	// Go checks: 0 <= lo <= hi <= max <= cap
	zero := ex.intZero(intK)
	capT := ex.intConst(big.NewInt(int64(capLimit)), intK)
	ok := And(ex.cmp(token.LEQ, zero, lo, intK), And(ex.cmp(token.LEQ, lo, hi, intK), And(ex.cmp(token.LEQ, hi, mx, intK), ex.cmp(token.LEQ, mx, capT, intK))))
	if !ex.decide(st, ok) {
		panic(goPanic{Val: ex.runtimeError("slice bounds out of range")})
	}
	l := int(ex.concretize(st, lo, capLimit+1))
	h := int(ex.concretize(st, hi, capLimit+1))
	m := int(ex.concretize(st, mx, capLimit+1))
	if str != nil {
		bs := ex.strBytes(*str)
		return ex.mkStr(bs[l:h])
	}
	if base.Obj == 0 {
		return SliceV{}
	}
	return SliceV{Obj: base.Obj, Path: base.Path, Off: base.Off + l, Len: h - l, Cap: m - l}
}
