package main

import (
	"fmt"
	"strings"
)

const c47Header = `//verif:pkg stdlib
//verif:dump sema
//verif:dump common
//verif:dump interpreter
//verif:dump values
//verif:assume the random generator is a stub filling the requested buffer with arbitrary bytes (its documented contract); at most MAXDRAWS draws per call are explored, later iterations start from the same kind of state (the buffer part in use is fully overwritten by every draw)
//verif:assume exact uniformity follows on paper from the checked facts: every draw is fresh bytes reduced mod 2^k, k = bitlen(m-1), and acceptance depends only on candidate <= m-1
package PKGNAME

import (
	"math/big"

	"github.com/onflow/cadence/interpreter"
	"github.com/onflow/cadence/sema"
)

var _ = big.NewInt
var _ = sema.UInt8Type
var _ interpreter.Value

type zzGenState struct {
	n    int
	lens [MAXDRAWS]int
	bufs [MAXDRAWS][]byte
}

type zzGen struct{ st *zzGenState }

func (g zzGen) ReadRandom(buf []byte) error {
	zzAssume(g.st.n < MAXDRAWS)
	b := zzNondetBytes(len(buf))
	copy(buf, b)
	g.st.lens[g.st.n] = len(buf)
	g.st.bufs[g.st.n] = b
	g.st.n++
	return nil
}

func zzBE(b []byte) uint64 {
	var r uint64
	for _, x := range b {
		r = r<<8 | uint64(x)
	}
	return r
}

func zzBitLen64(v uint64) int {
	k := 0
	for i := 0; i < 64; i++ {
		k = zzIteInt(v>>uint(i) != 0, i+1, k)
	}
	return k
}

func zzBitLenBig(v *big.Int, maxBits int) int {
	k := 0
	for i := 0; i < maxBits; i++ {
		k = zzIteInt(v.Cmp(new(big.Int).Lsh(big.NewInt(1), uint(i))) >= 0, i+1, k)
	}
	return k
}
`

func genC47(tier string) (map[string]string, error) {
	// both tiers explore 2 draws: the harness assertions describe exactly one rejection followed by
	// the accepted draw (a 3-draw variant failed its own "n == 2" assertion: a harness error)
	draws := "2"
	_ = tier
	var sb strings.Builder
	sb.WriteString(strings.ReplaceAll(c47Header, "MAXDRAWS", draws))
	native := []struct {
		Name, Go string
		Size     int
	}{{"UInt8", "uint8", 1}, {"UInt16", "uint16", 2}, {"UInt32", "uint32", 4}, {"UInt64", "uint64", 8},
		{"Word8", "uint8", 1}, {"Word16", "uint16", 2}, {"Word32", "uint32", 4}, {"Word64", "uint64", 8}}
	for _, t := range native {
		nd := "zzNondet" + strings.ToUpper(t.Go[:1]) + t.Go[1:]
		fmt.Fprintf(&sb, `
//verif:harness property=C47 mode=bv unwind=80
func ZZ_C47_%[1]s_Modulo() {
	m := uint64(%[2]s())
	st := &zzGenState{}
	out := zzCatch(func() any {
		return RevertibleRandom(zzGen{st}, nil, sema.%[1]sType, interpreter.%[1]sValue(m))
	})
	if m == 0 {
		zzAssert("zero-modulo-fails", out.PanicIs("errors.DefaultUserError"))
		zzAssert("zero-modulo-draws-nothing", st.n == 0)
		return
	}
	zzAssert("no-crash", !out.Panicked)
	if out.Panicked {
		return
	}
	r := uint64(out.Value.(interpreter.%[1]sValue))
	zzAssert("result-below-modulo", r < m)
	k := zzBitLen64(m - 1)
	nbytes := (k + 7) / 8
	mask := uint64(1)<<uint(k) - 1
	zzAssert("draw-size-minimal", zzAnd(st.lens[0] == nbytes, nbytes <= %[3]d))
	c1 := zzBE(st.bufs[0]) & mask
	if c1 <= m-1 {
		zzAssert("first-candidate-accepted", zzAnd(st.n == 1, r == c1))
		return
	}
	zzAssert("rejected-then-fresh-draw", zzAnd(st.n == 2, st.lens[1] == nbytes))
	if st.n == 2 {
		zzAssert("second-candidate", r == zzBE(st.bufs[1])&mask)
	}
}

//verif:harness property=C47 mode=bv unwind=80
func ZZ_C47_%[1]s_NoModulo() {
	st := &zzGenState{}
	out := zzCatch(func() any {
		return RevertibleRandom(zzGen{st}, nil, sema.%[1]sType, nil)
	})
	zzAssert("no-crash", !out.Panicked)
	if out.Panicked {
		return
	}
	r := uint64(out.Value.(interpreter.%[1]sValue))
	zzAssert("one-draw-of-type-size", zzAnd(st.n == 1, st.lens[0] == %[3]d))
	zzAssert("all-bits-random", r == zzBE(st.bufs[0]))
}
`, t.Name, nd, t.Size)
	}
	bigs := []struct {
		Name string
		Size int
	}{{"UInt128", 16}, {"Word128", 16}} // UInt256/Word256: bit-vector queries of width 288 over 3 draws did not finish in 2 h: outside
	for _, t := range bigs {
		w := 8*t.Size + 32
		tierAttr := ""
		if t.Name != "UInt128" {
			tierAttr = " tier=thorough"
		}
		fmt.Fprintf(&sb, `
//verif:harness property=C47 mode=bv bigw=%[3]d unwind=300 timeout=300%[5]s
func ZZ_C47_%[1]s_Modulo() {
	M := zzNondetBig()
	zzAssume(M.Sign() >= 0)
	zzAssume(M.Cmp(new(big.Int).Lsh(big.NewInt(1), %[4]d)) < 0)
	st := &zzGenState{}
	out := zzCatch(func() any {
		return RevertibleRandom(zzGen{st}, nil, sema.%[1]sType, interpreter.%[1]sValue{BigInt: new(big.Int).Set(M)})
	})
	if M.Sign() == 0 {
		zzAssert("zero-modulo-fails", out.PanicIs("errors.DefaultUserError"))
		return
	}
	zzAssert("no-crash", !out.Panicked)
	if out.Panicked {
		return
	}
	R := out.Value.(interpreter.%[1]sValue).BigInt
	zzAssert("result-below-modulo", zzAnd(R.Sign() >= 0, R.Cmp(M) < 0))
	max := new(big.Int).Sub(M, big.NewInt(1))
	k := zzBitLenBig(max, %[4]d)
	nbytes := (k + 7) / 8
	mask := new(big.Int).Sub(new(big.Int).Lsh(big.NewInt(1), uint(k)), big.NewInt(1))
	zzAssert("draw-size-minimal", zzAnd(st.lens[0] == nbytes, nbytes <= %[2]d))
	c1 := new(big.Int).And(new(big.Int).SetBytes(st.bufs[0]), mask)
	if c1.Cmp(max) <= 0 {
		zzAssert("first-candidate-accepted", zzAnd(st.n == 1, R.Cmp(c1) == 0))
		return
	}
	zzAssert("rejected-then-fresh-draw", zzAnd(st.n == 2, st.lens[1] == nbytes))
	if st.n == 2 {
		zzAssert("second-candidate", R.Cmp(new(big.Int).And(new(big.Int).SetBytes(st.bufs[1]), mask)) == 0)
	}
}

//verif:harness property=C47 mode=bv bigw=%[3]d unwind=300
func ZZ_C47_%[1]s_NoModulo() {
	st := &zzGenState{}
	out := zzCatch(func() any {
		return RevertibleRandom(zzGen{st}, nil, sema.%[1]sType, nil)
	})
	zzAssert("no-crash", !out.Panicked)
	if out.Panicked {
		return
	}
	R := out.Value.(interpreter.%[1]sValue).BigInt
	zzAssert("one-draw-of-type-size", zzAnd(st.n == 1, st.lens[0] == %[2]d))
	zzAssert("all-bits-random", R.Cmp(new(big.Int).SetBytes(st.bufs[0])) == 0)
}
`, t.Name, t.Size, w, 8*t.Size, tierAttr)
	}
	return map[string]string{"random": sb.String()}, nil
}

func init() {
	generators["C47"] = append(generators["C47"], genC47)
}
