package main

// Contract stubs for the arithmetic of the external module github.com/onflow/fixed-point
// (Fix128 / UFix128 FMD, Mul, Div, Mod), written from its documentation (types.go, fix128.go):
//   FMD(a,b,c,round) = a*b/c without intermediate rounding, rounded by the mode;
//   DivisionByZeroError if c == 0; PositiveOverflowError / NegativeOverflowError if the rounded
//   result is above / below the type's range; UnderflowError (result 0) if the exact result is
//   non-zero but rounds to zero; Mul(a,b) = FMD(a,b,1), Div(a,b) = FMD(a,1,b);
//   Mod(a,b): remainder with the sign of a, DivisionByZeroError if b == 0.
// Cadence's own wrappers (error remapping, choice of rounding mode, saturation) run for real
// against this contract. int-mode only. The library's Add/Sub/Neg are executed from their source.

import (
	"go/types"
	"math/big"

	"golang.org/x/tools/go/ssa"
)

const fixPkg = "github.com/onflow/fixed-point"

func (ex *Exec) fixErr(name string) Value {
	for _, p := range ex.Prog.AllPackages() {
		if p.Pkg.Path() == fixPkg {
			if o := p.Pkg.Scope().Lookup(name); o != nil {
				return IfaceV{T: o.Type(), V: StructV{}}
			}
		}
	}
	unsupported("fixed-point error type %s not found", name)
	return nil
}

// raw128 struct {Hi, Lo} -> mathematical integer
func (ex *Exec) fix128ToMath(v Value, signed bool) *Term {
	s, ok := v.(StructV)
	if !ok || len(s.F) != 2 {
		unsupported("fix128 value %s", describe(v))
	}
	hi, lo := s.F[0].(*Term), s.F[1].(*Term)
	r := IAdd(IMul(hi, IntC(pow2(64))), lo)
	if signed {
		r = Ite(ICmp(">=", hi, IntC(pow2(63))), ISub(r, IntC(pow2(128))), r)
	}
	return r
}

func (ex *Exec) mathToFix128(r *Term) Value {
	m := IMod(r, IntC(pow2(128)))
	return StructV{F: []Value{IDiv(m, IntC(pow2(64))), IMod(m, IntC(pow2(64)))}}
}

func absI(t *Term) *Term { return Ite(ICmp("<", t, IntC64(0)), INeg(t), t) }

// fmdContract returns (result struct, error iface) outcomes for N/D rounded by mode.
func (ex *Exec) fmdContract(st *State, N, D *Term, mode *Term, signed bool) []Value {
	zeroV := ex.mathToFix128(IntC64(0))
	if ex.decide(st, Eq(D, IntC64(0))) {
		return []Value{zeroV, ex.fixErr("DivisionByZeroError")}
	}
	qt := tdiv(N, D)
	rem := ISub(N, IMul(qt, D))
	hasRem := Not(Eq(rem, IntC64(0)))
	negQ := Not(Eq(ICmp("<", N, IntC64(0)), ICmp("<", D, IntC64(0))))
	away := Ite(negQ, ISub(qt, IntC64(1)), IAdd(qt, IntC64(1)))
	twice := IMul(IntC64(2), absI(rem))
	absD := absI(D)
	geHalf := ICmp(">=", twice, absD)
	gtHalf := ICmp(">", twice, absD)
	odd := Eq(IMod(absI(qt), IntC64(2)), IntC64(1))
	rAway := Ite(hasRem, away, qt)
	rHalfAway := Ite(And(hasRem, geHalf), away, qt)
	rHalfEven := Ite(And(hasRem, Or(gtHalf, And(Eq(twice, absD), odd))), away, qt)
	R := Ite(Eq(mode, IntC64(0)), qt, Ite(Eq(mode, IntC64(1)), rAway, Ite(Eq(mode, IntC64(2)), rHalfAway, rHalfEven)))
	var lo, hi *big.Int
	if signed {
		lo, hi = new(big.Int).Neg(pow2(127)), new(big.Int).Sub(pow2(127), bigOne)
	} else {
		lo, hi = big.NewInt(0), new(big.Int).Sub(pow2(128), bigOne)
	}
	if ex.decide(st, ICmp(">", R, IntC(hi))) {
		return []Value{zeroV, ex.fixErr("PositiveOverflowError")}
	}
	if ex.decide(st, ICmp("<", R, IntC(lo))) {
		return []Value{zeroV, ex.fixErr("NegativeOverflowError")}
	}
	if ex.decide(st, And(Not(Eq(N, IntC64(0))), Eq(R, IntC64(0)))) {
		return []Value{zeroV, ex.fixErr("UnderflowError")}
	}
	return []Value{ex.mathToFix128(R), IfaceV{}}
}

func init() {
	one := IntC(new(big.Int).Exp(big.NewInt(10), big.NewInt(24), nil))
	reg := func(recv string, signed bool) {
		name := func(m string) string { return "(" + fixPkg + "." + recv + ")." + m }
		intrinsics[name("FMD")] = func(ex *Exec, st *State, fn *ssa.Function, args []Value, depth int) []Value {
			if !ex.IntMode {
				unsupported("fixed-point contract stubs need mode=int")
			}
			a, b, c := ex.fix128ToMath(args[0], signed), ex.fix128ToMath(args[1], signed), ex.fix128ToMath(args[2], signed)
			return ex.fmdContract(st, IMul(a, b), c, args[3].(*Term), signed)
		}
		intrinsics[name("Mul")] = func(ex *Exec, st *State, fn *ssa.Function, args []Value, depth int) []Value {
			if !ex.IntMode {
				unsupported("fixed-point contract stubs need mode=int")
			}
			a, b := ex.fix128ToMath(args[0], signed), ex.fix128ToMath(args[1], signed)
			return ex.fmdContract(st, IMul(a, b), one, args[2].(*Term), signed)
		}
		intrinsics[name("Div")] = func(ex *Exec, st *State, fn *ssa.Function, args []Value, depth int) []Value {
			if !ex.IntMode {
				unsupported("fixed-point contract stubs need mode=int")
			}
			a, b := ex.fix128ToMath(args[0], signed), ex.fix128ToMath(args[1], signed)
			return ex.fmdContract(st, IMul(a, one), b, args[2].(*Term), signed)
		}
		intrinsics[name("Mod")] = func(ex *Exec, st *State, fn *ssa.Function, args []Value, depth int) []Value {
			if !ex.IntMode {
				unsupported("fixed-point contract stubs need mode=int")
			}
			a, b := ex.fix128ToMath(args[0], signed), ex.fix128ToMath(args[1], signed)
			if ex.decide(st, Eq(b, IntC64(0))) {
				return []Value{ex.mathToFix128(IntC64(0)), ex.fixErr("DivisionByZeroError")}
			}
			return []Value{ex.mathToFix128(trem(a, b)), IfaceV{}}
		}
	}
	reg("Fix128", true)
	reg("UFix128", false)
}

var _ types.Type
