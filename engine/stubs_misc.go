package main

// Stubs for code that cannot be encoded (atree-backed composite values, sync.Map) and that the
// harnesses only use as plumbing. Each is listed in the evidence (stubs_and_intrinsics).

import (
	"strings"
	"go/token"
	"golang.org/x/tools/go/ssa"
)

const interpPkg = "github.com/onflow/cadence/interpreter."

func init() {
	// sync.Map as used by pure memo caches: every Load misses, Store is dropped.
	intrinsics["(*sync.Map).Load"] = func(ex *Exec, st *State, fn *ssa.Function, args []Value, depth int) []Value {
		return []Value{IfaceV{}, False()}
	}
	intrinsics["(*sync.Map).Store"] = func(ex *Exec, st *State, fn *ssa.Function, args []Value, depth int) []Value {
		return nil
	}
	// InclusiveRange composite: the three fields are kept in a plain object instead of an
	// atree-backed CompositeValue (stub set "range").
	rangeStubs[interpPkg+"createInclusiveRange"] = func(ex *Exec, st *State, fn *ssa.Function, args []Value, depth int) []Value {
		obj := st.NewObj(StructV{F: []Value{args[1], args[2], args[3]}})
		return []Value{PtrV{Obj: obj}}
	}
	rangeStubs[interpPkg+"getFieldAsIntegerValue"] = func(ex *Exec, st *State, fn *ssa.Function, args []Value, depth int) []Value {
		p := args[1].(PtrV)
		sv, ok := ex.load(st, p).(StructV)
		if !ok || len(sv.F) != 3 {
			unsupported("getFieldAsIntegerValue on a composite not built by createInclusiveRange")
		}
		name, ok := args[2].(StrV).Concrete()
		if !ok {
			unsupported("symbolic field name")
		}
		switch name {
		case "start":
			return []Value{sv.F[0]}
		case "end":
			return []Value{sv.F[1]}
		case "step":
			return []Value{sv.F[2]}
		}
		unsupported("unknown range field %q", name)
		return nil
	}
}

var rangeStubs = map[string]intrinsicFn{}

func init() {
	// atomic.Pointer used as a memo cache of a pure computation: Load misses, Store is dropped.
	intrinsics["(*sync/atomic.Pointer[T]).Load"] = func(ex *Exec, st *State, fn *ssa.Function, args []Value, depth int) []Value {
		return []Value{PtrV{}}
	}
	intrinsics["(*sync/atomic.Pointer[T]).Store"] = func(ex *Exec, st *State, fn *ssa.Function, args []Value, depth int) []Value {
		return nil
	}
}

func init() {
	// bytes.Compare / bytes.Equal are assembly (internal/bytealg): lexicographic comparison
	intrinsics["bytes.Compare"] = func(ex *Exec, st *State, fn *ssa.Function, args []Value, depth int) []Value {
		a, b := args[0].(SliceV), args[1].(SliceV)
		ea, eb := ex.sliceElems(st, a), ex.sliceElems(st, b)
		ta, tb := make([]*Term, len(ea)), make([]*Term, len(eb))
		for i, e := range ea {
			ta[i] = e.(*Term)
		}
		for i, e := range eb {
			tb[i] = e.(*Term)
		}
		lt := ex.bytesLess(ta, tb)
		gt := ex.bytesLess(tb, ta)
		return []Value{Ite(lt, ex.goInt(-1), Ite(gt, ex.goInt(1), ex.goInt(0)))}
	}
	intrinsics["bytes.Equal"] = func(ex *Exec, st *State, fn *ssa.Function, args []Value, depth int) []Value {
		a, b := args[0].(SliceV), args[1].(SliceV)
		if a.Len != b.Len {
			return []Value{False()}
		}
		ea, eb := ex.sliceElems(st, a), ex.sliceElems(st, b)
		r := True()
		for i := range ea {
			r = And(r, Eq(ea[i].(*Term), eb[i].(*Term)))
		}
		return []Value{r}
	}
}

func init() {
	// string cloning helpers use unsafe.String; semantically the identity on the contents
	clone := func(ex *Exec, st *State, fn *ssa.Function, args []Value, depth int) []Value {
		return []Value{args[0]}
	}
	intrinsics["internal/stringslite.Clone"] = clone
	intrinsics["strings.Clone"] = clone
}

func init() {
	// internal/bytealg index helpers are assembly: first index of byte c, or -1 (no forks)
	indexByte := func(ex *Exec, st *State, bs []*Term, c *Term) *Term {
		r := ex.goInt(-1)
		for i := len(bs) - 1; i >= 0; i-- {
			r = Ite(Eq(bs[i], c), ex.goInt(int64(i)), r)
		}
		return r
	}
	intrinsics["internal/bytealg.IndexByteString"] = func(ex *Exec, st *State, fn *ssa.Function, args []Value, depth int) []Value {
		return []Value{indexByte(ex, st, ex.strBytes(args[0].(StrV)), args[1].(*Term))}
	}
	intrinsics["internal/bytealg.IndexByte"] = func(ex *Exec, st *State, fn *ssa.Function, args []Value, depth int) []Value {
		el := ex.sliceElems(st, args[0].(SliceV))
		bs := make([]*Term, len(el))
		for i, e := range el {
			bs[i] = e.(*Term)
		}
		return []Value{indexByte(ex, st, bs, args[1].(*Term))}
	}
	intrinsics["internal/bytealg.CountString"] = func(ex *Exec, st *State, fn *ssa.Function, args []Value, depth int) []Value {
		bs := ex.strBytes(args[0].(StrV))
		c := args[1].(*Term)
		r := ex.goInt(0)
		for _, b := range bs {
			r = ex.arith(token.ADD, r, Ite(Eq(b, c), ex.goInt(1), ex.goInt(0)), intK)
		}
		return []Value{r}
	}
	// fmt.Sprintf with a concrete format made of literal text and %s verbs applied to strings
	// is modelled exactly; everything else stays opaque (messages are never the subject).
	intrinsics["fmt.Sprintf"] = func(ex *Exec, st *State, fn *ssa.Function, args []Value, depth int) []Value {
		opaque := []Value{StrV{S: "<fmt.Sprintf>"}}
		f, ok := args[0].(StrV).Concrete()
		if !ok {
			return opaque
		}
		var rest []Value
		if sl, ok := args[1].(SliceV); ok {
			rest = ex.sliceElems(st, sl)
		}
		var out []*Term
		ai := 0
		for i := 0; i < len(f); i++ {
			if f[i] != '%' {
				out = append(out, ex.byteTerm(f[i]))
				continue
			}
			if i+1 >= len(f) || f[i+1] != 's' || ai >= len(rest) {
				return opaque
			}
			iv, ok := rest[ai].(IfaceV)
			if !ok {
				return opaque
			}
			sv, ok := iv.V.(StrV)
			if !ok {
				return opaque
			}
			out = append(out, ex.strBytes(sv)...)
			ai++
			i++
		}
		return []Value{ex.mkStr(out)}
	}
}

func init() {
	// strings.ReplaceAll(s, old, new) with a concrete single-byte old: each byte of s is decided
	// (forks on symbolic bytes) and the result is assembled; the real implementation goes through
	// strings.Builder (unsafe.String).
	intrinsics["strings.ReplaceAll"] = func(ex *Exec, st *State, fn *ssa.Function, args []Value, depth int) []Value {
		s := args[0].(StrV)
		old, ok1 := args[1].(StrV).Concrete()
		nw, ok2 := args[2].(StrV).Concrete()
		if !ok1 || !ok2 || len(old) != 1 {
			unsupported("strings.ReplaceAll with symbolic or multi-byte pattern")
		}
		if sc, ok := s.Concrete(); ok {
			return []Value{StrV{S: strings.ReplaceAll(sc, old, nw)}}
		}
		bs := ex.strBytes(s)
		var out []*Term
		oc := ex.byteTerm(old[0])
		for _, b := range bs {
			if ex.decide(st, Eq(b, oc)) {
				for i := 0; i < len(nw); i++ {
					out = append(out, ex.byteTerm(nw[i]))
				}
			} else {
				out = append(out, b)
			}
		}
		return []Value{ex.mkStr(out)}
	}
}
