package main

// Stubs for code that cannot be encoded (atree-backed composite values, sync.Map) and that the
// harnesses only use as plumbing. Each is listed in the evidence (stubs_and_intrinsics).

import (
	"golang.org/x/tools/go/ssa"
)

const interpPkg = "github.com/onflow/cadence/interpreter."

func init() {
	// sync.Map as used by pure memo caches: every Load misses, Store is dropped.
	intrinsics["(*sync.Map).Load"] = func(ex *Exec, st *State, fn *ssa.Function, args []Value, depth int) []Value {
		return []Value{IfaceV{}, False()}
	}
	intrinsics["(*sync.Map).Store"] = func(ex *Exec, st *State, fn *ssa.Function, args []Value, depth int) []Value {
		return nil
	}
	// InclusiveRange composite: the three fields are kept in a plain object instead of an
	// atree-backed CompositeValue (stub set "range").
	rangeStubs[interpPkg+"createInclusiveRange"] = func(ex *Exec, st *State, fn *ssa.Function, args []Value, depth int) []Value {
		obj := st.NewObj(StructV{F: []Value{args[1], args[2], args[3]}})
		return []Value{PtrV{Obj: obj}}
	}
	rangeStubs[interpPkg+"getFieldAsIntegerValue"] = func(ex *Exec, st *State, fn *ssa.Function, args []Value, depth int) []Value {
		p := args[1].(PtrV)
		sv, ok := ex.load(st, p).(StructV)
		if !ok || len(sv.F) != 3 {
			unsupported("getFieldAsIntegerValue on a composite not built by createInclusiveRange")
		}
		name, ok := args[2].(StrV).Concrete()
		if !ok {
			unsupported("symbolic field name")
		}
		switch name {
		case "start":
			return []Value{sv.F[0]}
		case "end":
			return []Value{sv.F[1]}
		case "step":
			return []Value{sv.F[2]}
		}
		unsupported("unknown range field %q", name)
		return nil
	}
}

var rangeStubs = map[string]intrinsicFn{}

func init() {
	// atomic.Pointer used as a memo cache of a pure computation: Load misses, Store is dropped.
	intrinsics["(*sync/atomic.Pointer[T]).Load"] = func(ex *Exec, st *State, fn *ssa.Function, args []Value, depth int) []Value {
		return []Value{PtrV{}}
	}
	intrinsics["(*sync/atomic.Pointer[T]).Store"] = func(ex *Exec, st *State, fn *ssa.Function, args []Value, depth int) []Value {
		return nil
	}
}

func init() {
	// bytes.Compare / bytes.Equal are assembly (internal/bytealg): lexicographic comparison
	intrinsics["bytes.Compare"] = func(ex *Exec, st *State, fn *ssa.Function, args []Value, depth int) []Value {
		a, b := args[0].(SliceV), args[1].(SliceV)
		ea, eb := ex.sliceElems(st, a), ex.sliceElems(st, b)
		ta, tb := make([]*Term, len(ea)), make([]*Term, len(eb))
		for i, e := range ea {
			ta[i] = e.(*Term)
		}
		for i, e := range eb {
			tb[i] = e.(*Term)
		}
		lt := ex.bytesLess(ta, tb)
		gt := ex.bytesLess(tb, ta)
		return []Value{Ite(lt, ex.goInt(-1), Ite(gt, ex.goInt(1), ex.goInt(0)))}
	}
	intrinsics["bytes.Equal"] = func(ex *Exec, st *State, fn *ssa.Function, args []Value, depth int) []Value {
		a, b := args[0].(SliceV), args[1].(SliceV)
		if a.Len != b.Len {
			return []Value{False()}
		}
		ea, eb := ex.sliceElems(st, a), ex.sliceElems(st, b)
		r := True()
		for i := range ea {
			r = And(r, Eq(ea[i].(*Term), eb[i].(*Term)))
		}
		return []Value{r}
	}
}

func init() {
	// string cloning helpers use unsafe.String; semantically the identity on the contents
	clone := func(ex *Exec, st *State, fn *ssa.Function, args []Value, depth int) []Value {
		return []Value{args[0]}
	}
	intrinsics["internal/stringslite.Clone"] = clone
	intrinsics["strings.Clone"] = clone
}
