package main

import (
	"fmt"
	"os"
	"sort"
	"strconv"
)

func usage() {
	fmt.Println("usage: gosmt check <property-id> [--tier quick|thorough] [-v]")
	fmt.Println("       gosmt replay <replay-file>")
	fmt.Println("       gosmt list")
	os.Exit(2)
}

func main() {
	if len(os.Args) < 2 {
		usage()
	}
	switch os.Args[1] {
	case "list":
		ids := knownProperties()
		sort.Strings(ids)
		for _, id := range ids {
			fmt.Println(id)
		}
	case "check":
		if len(os.Args) < 3 {
			usage()
		}
		id := os.Args[2]
		tier := os.Getenv("VERIF_TIER")
		if tier == "" {
			tier = "quick"
		}
		verbose := false
		for i := 3; i < len(os.Args); i++ {
			switch os.Args[i] {
			case "--tier":
				if i+1 < len(os.Args) {
					tier = os.Args[i+1]
					i++
				}
			case "-v":
				verbose = true
			}
		}
		seed := 0
		if s := os.Getenv("VERIF_SEED"); s != "" {
			seed, _ = strconv.Atoi(s)
		}
		plan, err := buildPlan(id, tier)
		if err != nil {
			fmt.Println("BROKEN: plan:", err)
			os.Exit(2)
		}
		os.Exit(runProperty(plan, tier, seed, verbose))
	case "replay":
		if len(os.Args) < 3 {
			usage()
		}
		os.Exit(replayFile(os.Args[2]))
	default:
		usage()
	}
}
