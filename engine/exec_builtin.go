package main

import (
	"go/token"
	"go/types"
	"math/big"
	"unicode/utf8"

	"golang.org/x/tools/go/ssa"
)

// ---- maps

func (ex *Exec) mapObj(st *State, m MapV) *MapObj {
	if m.Obj == 0 {
		return nil
	}
	return st.Heap[m.Obj].(*MapObj)
}

// mapFind returns the index of key in the map (-1 if absent), deciding equality with each
// present key (forks when symbolic).
func (ex *Exec) mapFind(st *State, mo *MapObj, key Value) int {
	if mo == nil {
		return -1
	}
	for i, k := range mo.Keys {
		e := ex.valueEq(k, key)
		if e == nil {
			unsupported("map key comparison %s vs %s", describe(k), describe(key))
		}
		if ex.decide(st, e) {
			return i
		}
	}
	return -1
}

func (ex *Exec) lookup(fr *Frame, in *ssa.Lookup) Value {
	x := ex.get(fr, in.X)
	if s, ok := x.(StrV); ok {
		// string index
		idx := ex.toIntIdx(ex.get(fr, in.Index).(*Term), in.Index.Type())
		bs := ex.strBytes(s)
		ex.boundsCheck(fr, idx, len(bs), "index")
		vals := make([]Value, len(bs))
		for i, t := range bs {
			vals[i] = t
		}
		return ex.loadPath(ArrayV{E: vals}, []PathElem{ex.pathElemFor(idx, len(bs))})
	}
	m := x.(MapV)
	mo := ex.mapObj(fr.St, m)
	key := ex.get(fr, in.Index)
	i := ex.mapFind(fr.St, mo, key)
	elemT := in.X.Type().Underlying().(*types.Map).Elem()
	var v Value
	if i >= 0 {
		v = mo.Vals[i]
	} else {
		v = ex.zero(elemT)
	}
	if in.CommaOk {
		return TupleV{v, BoolC(i >= 0)}
	}
	return v
}

func (ex *Exec) mapUpdate(fr *Frame, in *ssa.MapUpdate) {
	m := ex.get(fr, in.Map).(MapV)
	if m.Obj == 0 {
		panic(goPanic{Val: ex.runtimeError("assignment to entry in nil map")})
	}
	mo := ex.mapObj(fr.St, m)
	key := ex.get(fr, in.Key)
	val := ex.get(fr, in.Value)
	i := ex.mapFind(fr.St, mo, key)
	n := &MapObj{Keys: append([]Value(nil), mo.Keys...), Vals: append([]Value(nil), mo.Vals...)}
	if i >= 0 {
		n.Vals[i] = val
	} else {
		n.Keys = append(n.Keys, key)
		n.Vals = append(n.Vals, val)
	}
	fr.St.Heap[m.Obj] = n
}

// ---- range

type rangeIter struct {
	IsMap bool
	Keys  []Value
	Vals  []Value
	Str   string
	Pos   int
}

func (ex *Exec) rangeInit(fr *Frame, in *ssa.Range) Value {
	x := ex.get(fr, in.X)
	var it *rangeIter
	switch v := x.(type) {
	case MapV:
		mo := ex.mapObj(fr.St, v)
		it = &rangeIter{IsMap: true}
		if mo != nil {
			it.Keys, it.Vals = mo.Keys, mo.Vals
		}
	case StrV:
		s, ok := v.Concrete()
		if !ok {
			unsupported("range over symbolic string")
		}
		it = &rangeIter{Str: s}
	default:
		unsupported("range over %s", describe(x))
	}
	obj := fr.St.NewObj(OpaqueV{})
	fr.St.Heap[obj] = it
	return PtrV{Obj: obj}
}

func (ex *Exec) rangeNext(fr *Frame, in *ssa.Next) Value {
	p := ex.get(fr, in.Iter).(PtrV)
	it := fr.St.Heap[p.Obj].(*rangeIter)
	n := *it
	if it.IsMap {
		tup := in.Type().(*types.Tuple)
		if it.Pos >= len(it.Keys) {
			return TupleV{False(), ex.zeroOrNil(tup.At(1).Type()), ex.zeroOrNil(tup.At(2).Type())}
		}
		n.Pos++
		fr.St.Heap[p.Obj] = &n
		return TupleV{True(), it.Keys[it.Pos], it.Vals[it.Pos]}
	}
	if it.Pos >= len(it.Str) {
		return TupleV{False(), ex.intZero(intK), ex.intZero(IntKind{32, true})}
	}
	r, sz := utf8.DecodeRuneInString(it.Str[it.Pos:])
	n.Pos += sz
	fr.St.Heap[p.Obj] = &n
	return TupleV{True(), ex.intConst(big.NewInt(int64(it.Pos)), intK), ex.intConst(big.NewInt(int64(r)), IntKind{32, true})}
}

func (ex *Exec) zeroOrNil(t types.Type) Value {
	if b, ok := t.(*types.Basic); ok && b.Kind() == types.Invalid {
		return nil
	}
	return ex.zero(t)
}

// ---- builtins

func (ex *Exec) callBuiltinValue(st *State, name string, args []Value) []Outcome {
	return []Outcome{{St: st, Kind: OAbort, Abort: "UNSUPPORTED: deferred/indirect builtin " + name}}
}

func (ex *Exec) callBuiltin(fr *Frame, name string, args []Value, in *ssa.Call) []Outcome {
	st := fr.St
	ret := func(v ...Value) []Outcome { return []Outcome{{St: st, Kind: ORet, Vals: v}} }
	mkInt := func(n int) *Term { return ex.intConst(big.NewInt(int64(n)), intK) }
	switch name {
	case "builtin:len":
		switch a := args[0].(type) {
		case SliceV:
			if a.SymLen != nil {
				return ret(a.SymLen)
			}
			return ret(mkInt(a.Len))
		case StrV:
			return ret(mkInt(a.Len()))
		case MapV:
			mo := ex.mapObj(st, a)
			if mo == nil {
				return ret(mkInt(0))
			}
			return ret(mkInt(len(mo.Keys)))
		case ArrayV:
			return ret(mkInt(len(a.E)))
		case PtrV:
			arr := ex.load(st, a).(ArrayV)
			return ret(mkInt(len(arr.E)))
		}
	case "builtin:cap":
		switch a := args[0].(type) {
		case SliceV:
			return ret(mkInt(a.Cap))
		case ArrayV:
			return ret(mkInt(len(a.E)))
		}
	case "builtin:append":
		s := args[0].(SliceV)
		var add []Value
		switch t := args[1].(type) {
		case SliceV:
			add = ex.sliceElems(st, t)
		case StrV:
			for _, b := range ex.strBytes(t) {
				add = append(add, b)
			}
		default:
			unsupported("append of %s", describe(args[1]))
		}
		if len(add) == 0 {
			return ret(s)
		}
		newLen := s.Len + len(add)
		if newLen <= s.Cap && s.Obj != 0 {
			for i, v := range add {
				ex.store(st, ex.sliceElemPtr(s, s.Len+i), v)
			}
			s.Len = newLen
			return ret(s)
		}
		elemT := in.Call.Args[0].Type().Underlying().(*types.Slice).Elem()
		old := ex.sliceElems(st, s)
		all := append(append([]Value(nil), old...), add...)
		nc := 2 * s.Cap
		if nc < newLen {
			nc = newLen
		}
		return ret(ex.newSlice(st, all, nc, ex.zero(elemT)))
	case "builtin:copy":
		dst := args[0].(SliceV)
		var src []Value
		switch t := args[1].(type) {
		case SliceV:
			src = append([]Value(nil), ex.sliceElems(st, t)...)
		case StrV:
			for _, b := range ex.strBytes(t) {
				src = append(src, b)
			}
		}
		n := dst.Len
		if len(src) < n {
			n = len(src)
		}
		for i := 0; i < n; i++ {
			ex.store(st, ex.sliceElemPtr(dst, i), src[i])
		}
		return ret(mkInt(n))
	case "builtin:delete":
		m := args[0].(MapV)
		mo := ex.mapObj(st, m)
		i := ex.mapFind(st, mo, args[1])
		if i >= 0 {
			n := &MapObj{}
			for j := range mo.Keys {
				if j != i {
					n.Keys = append(n.Keys, mo.Keys[j])
					n.Vals = append(n.Vals, mo.Vals[j])
				}
			}
			st.Heap[m.Obj] = n
		}
		return ret()
	case "builtin:clear":
		switch a := args[0].(type) {
		case MapV:
			if a.Obj != 0 {
				st.Heap[a.Obj] = &MapObj{}
			}
			return ret()
		case SliceV:
			elemT := in.Call.Args[0].Type().Underlying().(*types.Slice).Elem()
			for i := 0; i < a.Len; i++ {
				ex.store(st, ex.sliceElemPtr(a, i), ex.zero(elemT))
			}
			return ret()
		}
	case "builtin:min", "builtin:max":
		k, ok := basicIntKind(in.Call.Args[0].Type())
		if ok {
			r := args[0].(*Term)
			for _, a := range args[1:] {
				t := a.(*Term)
				var c *Term
				if name == "builtin:min" {
					c = ex.cmp(token.LSS, t, r, k)
				} else {
					c = ex.cmp(token.GTR, t, r, k)
				}
				r = Ite(c, t, r)
			}
			return ret(r)
		}
	case "builtin:recover":
		if st.CurPanic != nil && !st.CurPanic.Recovered {
			cp := *st.CurPanic
			cp.Recovered = true
			st.CurPanic = &cp
			return ret(cp.Val)
		}
		return ret(IfaceV{})
	case "builtin:print", "builtin:println":
		return ret()
	case "builtin:ssa:wrapnilchk":
		if p, ok := args[0].(PtrV); ok && p.Obj == 0 {
			panic(goPanic{Val: ex.runtimeError("nil pointer dereference (wrapnilchk)")})
		}
		return ret(args[0])
	}
	unsupported("builtin %s on %s", name, describe(args[0]))
	return nil
}
